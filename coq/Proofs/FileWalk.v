(* One step of a run on a whole file: when every field of the file other than its declarations is
   the same in the two snapshots, the Changed calls of Snapshot.Diff are those of the walk of the
   declaration list - so a comment attached to a declaration that the edit script pairs as
   identical is clear of every call of the step. *)
From GP Require Import AstDiff AstDiffFacts DiffFacts DiffDiag WalkTotal WalkSame.
From Coq Require Import Lia.
Local Open Scope Z_scope.

(* ---------------------------------------------------------------- the boolean checkers *)
Lemma sameb_sound : forall x y, sameb x y = true -> same x y.
Proof.
  fix IH 1. intros x y. destruct x as [t|p|t a|t i e|t en xs|t xs]; destruct y as [t'|p'|t' a'|t' i' e'|t' en' ys|t' ys];
    cbn [sameb same]; intros H; try discriminate.
  - apply N.eqb_eq; exact H.
  - apply Bool.eqb_prop; exact H.
  - apply andb_true_iff in H as [A B]. split; apply N.eqb_eq; assumption.
  - apply andb_true_iff in H as [A B]. split; [apply N.eqb_eq; exact A|apply IH; exact B].
  - apply andb_true_iff in H as [H C]. apply andb_true_iff in H as [A B].
    split; [apply N.eqb_eq; exact A|]. split; [apply Bool.eqb_prop; exact B|].
    revert ys C. induction xs as [|x xs IHxs]; intros ys C; destruct ys as [|y ys]; try discriminate; [exact I|].
    apply andb_true_iff in C as [C1 C2]. split; [apply IH; exact C1|apply IHxs; exact C2].
  - apply andb_true_iff in H as [A C]. split; [apply N.eqb_eq; exact A|].
    revert ys C. induction xs as [|x xs IHxs]; intros ys C; destruct ys as [|y ys]; try discriminate; [exact I|].
    apply andb_true_iff in C as [C1 C2]. split; [apply IH; exact C1|apply IHxs; exact C2].
Qed.

Lemma sameb_all_sound : forall xs ys, sameb_all xs ys = true -> same_all xs ys.
Proof.
  induction xs as [|x xs IH]; intros ys H; destruct ys as [|y ys]; try discriminate; [exact I|].
  cbn [sameb_all] in H. apply andb_true_iff in H as [A B]. split; [apply sameb_sound; exact A|apply IH; exact B].
Qed.

(* ---------------------------------------------------------------- the fields of a struct *)
Section Fields.
  Variable script : list value -> list value -> list edit.
  Hypothesis script_same : forall xs ys, same_all xs ys -> script xs ys = repeat Identity (length xs).

  (* the walk of the fields of a struct, as in [walk] *)
  Fixpoint fields (k : nat) (nend : Z) (xs ys : list value) (ss es : list Z) : option (bool * list value * list region) :=
    match xs, ys, ss, es with
    | x :: xs', y :: ys', s :: ss', e :: es' =>
        match walk script k nend (s, e) x y with
        | None => None
        | Some w =>
            match fields k nend xs' ys' ss' es' with
            | None => None
            | Some (eq, tos, lg) => Some (w_equal w && eq, w_to w :: tos, w_log w ++ lg)
            end
        end
    | _, _, _, _ => Some (true, ys, [])
    end.

  Lemma walk_struct k nend r t xs t' ys :
    walk script (S k) nend r (VStruct t xs) (VStruct t' ys) =
    if negb (N.eqb t t') then Some {| w_equal := false; w_to := VStruct t' ys; w_log := [r] |}
    else if (N.eqb t T_object || N.eqb t T_cgroup)%bool then Some {| w_equal := true; w_to := VStruct t' ys; w_log := [] |}
    else match fields k nend xs ys (starts_of (end_of nend r) xs (fst r))
                      (fst (ends_of (end_of nend r) xs (starts_of (end_of nend r) xs (fst r)) (snd r))) with
         | None => None
         | Some (eq, tos, lg) => Some {| w_equal := eq; w_to := VStruct t' tos; w_log := lg |}
         end.
  Proof.
    cbn [walk vtype]. destruct (negb (N.eqb t t')); [reflexivity|].
    destruct (N.eqb t T_object || N.eqb t T_cgroup)%bool; [reflexivity|].
    generalize (starts_of (end_of nend r) xs (fst r)) as ss. intros ss.
    generalize (fst (ends_of (end_of nend r) xs ss (snd r))) as es. intros es.
    match goal with |- match ?g xs ys ss es with _ => _ end = _ =>
      assert (forall xs ys ss es, g xs ys ss es = fields k nend xs ys ss es) as Hg end.
    { clear. induction xs as [|x xs IH]; intros ys ss es; [reflexivity|].
      destruct ys as [|y ys]; [reflexivity|]. destruct ss as [|s ss]; [reflexivity|]. destruct es as [|e es]; [reflexivity|].
      cbn [fields]. destruct (walk script k nend (s, e) x y); [|reflexivity]. rewrite IH. reflexivity. }
    rewrite Hg. reflexivity.
  Qed.

  Lemma walk_ref k nend r t i e t' i' e' :
    walk script (S k) nend r (VRef t i e) (VRef t' i' e') =
    if negb (N.eqb t t') then Some {| w_equal := false; w_to := VRef t' i' e'; w_log := [r] |}
    else if (N.eqb t T_object || N.eqb t T_cgroup)%bool then Some {| w_equal := true; w_to := VRef t' i' e'; w_log := [] |}
    else match walk script k (if n_isnode i then end_of nend r (VRef t i e) else nend) r e e' with
         | None => None
         | Some w => Some {| w_equal := w_equal w;
                             w_to := unchanged (VRef t i e) (VRef t' i' (w_to w));
                             w_log := w_log w |}
         end.
  Proof. reflexivity. Qed.

  Lemma fields_same k nend : forall xs ys ss es eq tos lg,
    same_all xs ys -> fields k nend xs ys ss es = Some (eq, tos, lg) -> lg = [].
  Proof.
    induction xs as [|x xs IH]; intros ys ss es eq tos lg Hs H.
    - simpl in H. inversion H; reflexivity.
    - destruct ys as [|y ys]; [contradiction|]. destruct Hs as [H1 H2]. cbn [fields] in H.
      destruct ss as [|s ss]; [inversion H; reflexivity|]. destruct es as [|e es]; [inversion H; reflexivity|].
      destruct (walk script k nend (s, e) x y) as [w'|] eqn:Ew; [|discriminate].
      destruct (fields k nend xs ys ss es) as [[[eq' tos'] lg']|] eqn:E; [|discriminate]. inversion H; subst.
      rewrite (walk_same script script_same _ _ _ _ _ _ H1 Ew), (IH ys ss es eq' tos' lg' H2 E). reflexivity.
  Qed.

  (* all fields but the first list of nodes are the same *)
  Fixpoint others_same (cs cs' : list value) : Prop :=
    match cs, cs' with
    | VSlice t true _ :: tl, VSlice t' true _ :: tl' => t = t' /\ plain_type t = true /\ same_all tl tl'
    | c :: tl, c' :: tl' => same c c' /\ others_same tl tl'
    | _, _ => False
    end.

  Lemma starts_of_length eo : forall cs le, length (starts_of eo cs le) = length cs.
  Proof.
    induction cs as [|c cs IH]; intros le; [reflexivity|]. cbn [starts_of].
    destruct (is_node c); [cbn [length]; rewrite IH; reflexivity|].
    destruct c; cbn [length]; rewrite IH; reflexivity.
  Qed.

  Lemma ends_of_length eo : forall cs ss fend, length ss = length cs -> length (fst (ends_of eo cs ss fend)) = length cs.
  Proof.
    induction cs as [|c cs IH]; intros ss fend Hl; [reflexivity|]. destruct ss as [|s ss]; [discriminate|].
    cbn [ends_of]. specialize (IH ss fend ltac:(simpl in Hl; lia)).
    destruct (ends_of eo cs ss fend) as [es np]. cbn [fst length] in *. rewrite IH. reflexivity.
  Qed.

  (* the log of the fields is the log of the walk of that list, with the region walkStruct gives it *)
  Lemma fields_others k nend : forall cs cs' ss es eq tos lg,
    length ss = length cs -> length es = length cs ->
    others_same cs cs' -> fields k nend cs cs' ss es = Some (eq, tos, lg) ->
    exists rg t xs t' ys wd,
      first_node_slice cs ss es = Some (rg, xs) /\ first_node_slice_to cs' = Some ys /\
      N.eqb t t' = true /\ plain_type t = true /\
      walk script k nend rg (VSlice t true xs) (VSlice t' true ys) = Some wd /\ lg = w_log wd.
  Proof.
    induction cs as [|c cs IH]; intros cs' ss es eq tos lg Hls Hle Ho H; [contradiction|].
    destruct cs' as [|c' cs']; [destruct c as [| | | |? [] ?|]; contradiction|].
    destruct ss as [|s ss]; [discriminate|]. destruct es as [|e es]; [discriminate|].
    assert ((exists t xs t' ys, c = VSlice t true xs /\ c' = VSlice t' true ys /\ t = t' /\ plain_type t = true /\ same_all cs cs')
            \/ ((forall t xs, c <> VSlice t true xs) /\ same c c' /\ others_same cs cs')) as [D|D].
    { destruct c as [t|p|t a|t i e0|t en xs|t xs]; try (right; split; [intros; discriminate|exact Ho]).
      destruct en; [|right; split; [intros; discriminate|exact Ho]].
      destruct c' as [t'|p'|t' a'|t' i' e'|t' en' ys|t' ys]; try (cbn in Ho; destruct Ho as [Ho _]; contradiction).
      destruct en'.
      - left. cbn in Ho. destruct Ho as [A [B C]]. exists t, xs, t', ys. auto.
      - cbn in Ho. destruct Ho as [Ho _]. change (same (VSlice t true xs) (VSlice t' false ys)) in Ho. rewrite same_slice in Ho.
        destruct Ho as [_ [Ho _]]. discriminate. }
    - (* this field is the list *)
      destruct D as [t [xs [t' [ys [-> [-> [Et [Ep Hs]]]]]]]]. cbn [fields] in H.
      destruct (walk script k nend (s, e) (VSlice t true xs) (VSlice t' true ys)) as [w'|] eqn:Ew; [|discriminate].
      destruct (fields k nend cs cs' ss es) as [[[eq' tos'] lg']|] eqn:E; [|discriminate]. inversion H; subst.
      rewrite (fields_same k nend cs cs' ss es eq' tos' lg' Hs E), app_nil_r.
      exists (s, e), t', xs, t', ys, w'. cbn [first_node_slice first_node_slice_to]. rewrite N.eqb_refl. repeat split; try reflexivity; assumption.
    - destruct D as [Hc [Hsame Ho']]. cbn [fields] in H.
      destruct (walk script k nend (s, e) c c') as [w'|] eqn:Ew; [|discriminate].
      destruct (fields k nend cs cs' ss es) as [[[eq' tos'] lg']|] eqn:E; [|discriminate]. inversion H; subst.
      rewrite (walk_same script script_same _ _ _ _ _ _ Hsame Ew). cbn [app].
      destruct (IH cs' ss es eq' tos' lg' ltac:(simpl in Hls; lia) ltac:(simpl in Hle; lia) Ho' E) as [rg [t [xs [t' [ys [wd [F1 [F2 R]]]]]]]].
      exists rg, t, xs, t', ys, wd. split; [|split; [|exact R]].
      + destruct c as [t0|p|t0 a|t0 i e0|t0 en xs0|t0 xs0]; try exact F1.
        destruct en; [exfalso; exact (Hc t0 xs0 eq_refl)|exact F1].
      + destruct c as [t0|p|t0 a|t0 i e0|t0 en xs0|t0 xs0]; destruct c' as [t1|p1|t1 a1|t1 i1 e1|t1 en1 ys1|t1 ys1];
          simpl in Hsame; try contradiction; try exact F2.
        change (same (VSlice t0 en xs0) (VSlice t1 en1 ys1)) in Hsame. rewrite same_slice in Hsame. destruct Hsame as [_ [<- _]].
        destruct en; [exfalso; exact (Hc t0 xs0 eq_refl)|exact F2].
  Qed.
End Fields.

Lemma plain_type_split t : plain_type t = true -> N.eqb t T_object = false /\ N.eqb t T_cgroup = false.
Proof. unfold plain_type. intros H. apply andb_true_iff in H as [A B]. apply negb_true_iff in A, B. auto. Qed.

(* ---------------------------------------------------------------- Snapshot.Diff on a file *)
Theorem file_walk_log tF iF tS cs tF' iF' tS' cs' w :
  let from := VRef tF iF (VStruct tS cs) in
  let to := VRef tF' iF' (VStruct tS' cs') in
  tF = tF' -> plain_type tF = true -> tS = tS' -> plain_type tS = true -> n_isnode iF = true ->
  others_same cs cs' ->
  diff_snapshot from to = Some w ->
  exists r t xs t' k wd,
    file_decls from = Some (r, xs) /\ N.eqb t t' = true /\ plain_type t = true /\
    walk the_script (S k) (file_nend from) r (VSlice t true xs) (VSlice t' true (file_decls_to to)) = Some wd /\
    w_log w = w_log wd.
Proof.
  intros from to EF PF ES PS HN Ho H. subst tF' tS'.
  destruct (plain_type_split _ PF) as [F1 F2]. destruct (plain_type_split _ PS) as [S1 S2].
  unfold diff_snapshot in H. unfold from, to in H. cbn [vdepth] in H.
  set (m := fold_right (fun c n => Nat.max (vdepth c) n) O cs) in *.
  rewrite walk_ref in H. rewrite N.eqb_refl, F1, F2 in H. cbn [negb orb] in H.
  rewrite HN in H. fold from in H.
  set (r0 := (vpos from, vend from)) in *.
  assert (end_of nopos r0 from = file_nend from) as En by (unfold file_nend, is_node; cbn [info from]; rewrite HN; reflexivity).
  rewrite En in H.
  rewrite walk_struct in H. rewrite N.eqb_refl, S1, S2 in H. cbn [negb orb] in H.
  set (eo := end_of (file_nend from) r0) in *.
  set (ss := starts_of eo cs (fst r0)) in *.
  set (es := fst (ends_of eo cs ss (snd r0))) in *.
  destruct (fields the_script (S m) (file_nend from) cs cs' ss es) as [[[eq tos] lg]|] eqn:E; [|discriminate].
  assert (length ss = length cs) as Ls by (unfold ss; apply starts_of_length).
  assert (length es = length cs) as Le by (unfold es; apply ends_of_length; exact Ls).
  destruct (fields_others the_script the_script_same (S m) (file_nend from) cs cs' ss es eq tos lg Ls Le Ho E)
    as [rg [t [xs [t' [ys [wd [G1 [G2 [G3 [G4 [G5 G6]]]]]]]]]]].
  exists rg, t, xs, t', m, wd.
  assert (file_decls_to to = ys) as -> by (unfold file_decls_to, to; rewrite G2; reflexivity).
  split; [unfold file_decls, from; fold from; fold r0; fold eo; fold ss; fold es; exact G1|].
  split; [exact G3|]. split; [exact G4|]. split; [exact G5|].
  match type of H with context [Some ?x] => idtac end.
  destruct eq; inversion H; subst; cbn [w_log]; reflexivity.
Qed.

(* the boolean form of the hypotheses *)
Lemma others_sameb_sound : forall cs cs', others_sameb cs cs' = true -> others_same cs cs'.
Proof.
  induction cs as [|c cs IH]; intros cs' H; [discriminate|].
  destruct cs' as [|c' cs']; [destruct c as [| | | |? [] ?|]; discriminate|].
  destruct c as [t|p|t a|t i e|t en xs|t xs];
    try (cbn [others_sameb others_same] in *; apply andb_true_iff in H as [A B]; split; [apply sameb_sound; exact A|apply IH; exact B]).
  destruct en.
  - destruct c' as [t'|p'|t' a'|t' i' e'|t' en' ys|t' ys];
      try (cbn [others_sameb] in H; apply andb_true_iff in H as [A _]; discriminate).
    destruct en'.
    + cbn [others_sameb others_same] in *. apply andb_true_iff in H as [H C]. apply andb_true_iff in H as [A B].
      split; [apply N.eqb_eq; exact A|]. split; [exact B|apply sameb_all_sound; exact C].
    + cbn [others_sameb] in H. apply andb_true_iff in H as [A _]. cbn [sameb] in A.
      apply andb_true_iff in A as [A _]. apply andb_true_iff in A as [_ A]. discriminate.
  - cbn [others_sameb others_same] in *. apply andb_true_iff in H as [A B]. split; [apply sameb_sound; exact A|apply IH; exact B].
Qed.

(* one step on a file: a comment attached to a declaration the script pairs as identical is clear
   of every Changed call of the step *)
Theorem file_step_clear from to w j xj c r xs :
  diff_snapshot from to = Some w ->
  file_okb from to = true ->
  file_decls from = Some (r, xs) ->
  list_okb (file_nend from) r xs (xedits (the_script xs (file_decls_to to))) = true ->
  nth_error xs j = Some xj -> nth_error (xedits (the_script xs (file_decls_to to))) j = Some Identity ->
  fst c < snd c -> attachedb xs j xj c = true ->
  Forall (not_inside c) (w_log w).
Proof.
  intros H Hok Hfd Hl Hj HI Hc Ha.
  destruct from as [| | |tF iF [| | | | |tS cs]| |]; try discriminate.
  destruct to as [| | |tF' iF' [| | | | |tS' cs']| |]; try discriminate.
  cbn [file_okb] in Hok. repeat (apply andb_true_iff in Hok as [Hok ?]).
  apply N.eqb_eq in Hok.
  match goal with H : N.eqb tS tS' = true |- _ => apply N.eqb_eq in H; rename H into ES end.
  match goal with H : others_sameb cs cs' = true |- _ => apply others_sameb_sound in H; rename H into Ho end.
  destruct (file_walk_log tF iF tS cs tF' iF' tS' cs' w Hok ltac:(assumption) ES ltac:(assumption) ltac:(assumption) Ho H)
    as [r' [t [xs' [t' [k [wd [G1 [G2 [G3 [G4 G5]]]]]]]]]].
  rewrite Hfd in G1. inversion G1; subst r' xs'. rewrite G5.
  destruct (plain_type_split _ G3) as [T1 T2].
  exact (identity_element_keeps_its_comments_b the_script k (file_nend (VRef tF iF (VStruct tS cs))) r t xs t' true
           (file_decls_to (VRef tF' iF' (VStruct tS' cs'))) wd j xj c G4 G2 T1 T2 Hl Hj HI Hc Ha).
Qed.

(* the executable reading of the single-change theorem never reports 1 *)
Theorem one_change_report_ok from to : one_change_report from to <> 1.
Proof.
  unfold one_change_report. destruct (file_decls from) as [[r xs]|]; [|discriminate].
  set (ys := file_decls_to to). unfold one_change_at.
  destruct (Nat.eqb (length xs) (length ys)) eqn:El; [|discriminate]. cbn [negb]. apply Nat.eqb_eq in El.
  set (bad := filter _ _).
  destruct bad as [|a [|b rest]] eqn:Eb; try discriminate.
  destruct (r_equal (compare_nodes (nth a xs (VNil 0)) (nth a ys (VNil 0)))) eqn:Er; [discriminate|].
  assert (In a (seq 0 (length xs)) /\ forall i, (i < length xs)%nat -> i <> a -> sameb (nth i xs (VNil 0)) (nth i ys (VNil 0)) = true) as [Ha Hs].
  { split.
    - assert (In a bad) as Hin by (rewrite Eb; left; reflexivity). unfold bad in Hin. apply filter_In in Hin as [Hin _]. exact Hin.
    - intros i Hi Hne. destruct (sameb (nth i xs (VNil 0)) (nth i ys (VNil 0))) eqn:E; [reflexivity|].
      assert (In i bad) as Hin by (unfold bad; apply filter_In; split; [apply in_seq; lia|rewrite E; reflexivity]).
      rewrite Eb in Hin. destruct Hin as [->|[]]. contradiction. }
  apply in_seq in Ha.
  match goal with |- (if ?b then _ else _) <> _ => assert (b = true) as ->; [|discriminate] end.
  apply forallb_forall. intros j Hj. apply in_seq in Hj.
  destruct (Nat.eq_dec j a) as [->|Hne]; [rewrite Nat.eqb_refl; reflexivity|].
  replace (Nat.eqb j a) with false by (symmetry; apply Nat.eqb_neq; exact Hne). cbn [orb].
  rewrite (one_change_others_identical xs ys a j El ltac:(lia) (fun i Hi Hn => sameb_sound _ _ (Hs i Hi Hn)) Er ltac:(lia) Hne). reflexivity.
Qed.
