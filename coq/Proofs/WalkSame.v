(* A subtree in which nothing changed: nodeComparer (compare) finds no difference, Difference pairs
   every element of its lists with its counterpart, and changeFinder.Walk reports no span. *)
From GP Require Import AstDiff DiffFacts DiffDiag DiffOne WalkTotal.
From Coq Require Import Lia.
Local Open Scope Z_scope.

(* the same tree up to positions (validity only), the comments attached to nodes and the "is a node" flags *)
Fixpoint same (x y : value) : Prop :=
  match x, y with
  | VNil t, VNil t' => t = t'
  | VPos a, VPos b => valid a = valid b
  | VAtom t a, VAtom t' b => t = t' /\ a = b
  | VRef t _ e, VRef t' _ e' => t = t' /\ same e e'
  | VSlice t en xs, VSlice t' en' ys => t = t' /\ en = en' /\
      (fix all (xs ys : list value) : Prop :=
         match xs, ys with [], [] => True | x :: xs', y :: ys' => same x y /\ all xs' ys' | _, _ => False end) xs ys
  | VStruct t xs, VStruct t' ys => t = t' /\
      (fix all (xs ys : list value) : Prop :=
         match xs, ys with [], [] => True | x :: xs', y :: ys' => same x y /\ all xs' ys' | _, _ => False end) xs ys
  | _, _ => False
  end.

Fixpoint same_all (xs ys : list value) : Prop :=
  match xs, ys with [], [] => True | x :: xs', y :: ys' => same x y /\ same_all xs' ys' | _, _ => False end.

Lemma same_slice t en xs t' en' ys : same (VSlice t en xs) (VSlice t' en' ys) = (t = t' /\ en = en' /\ same_all xs ys).
Proof. reflexivity. Qed.
Lemma same_struct t xs t' ys : same (VStruct t xs) (VStruct t' ys) = (t = t' /\ same_all xs ys).
Proof. reflexivity. Qed.

Lemma same_vtype x y : same x y -> vtype x = vtype y.
Proof. destruct x, y; simpl; try tauto; intros H; try (destruct H as [H _]; exact H); try exact H. Qed.

Lemma same_all_length : forall xs ys, same_all xs ys -> length xs = length ys.
Proof. induction xs as [|x xs IH]; destruct ys as [|y ys]; simpl; try tauto. intros [_ H]. f_equal. apply IH; exact H. Qed.

Lemma same_all_nth : forall xs ys i, same_all xs ys -> (i < length xs)%nat -> same (nth i xs (VNil 0)) (nth i ys (VNil 0)).
Proof.
  induction xs as [|x xs IH]; destruct ys as [|y ys]; simpl; intros i H Hi; try tauto; try lia.
  destruct H as [H1 H2]. destruct i as [|i]; [exact H1|]. apply IH; [exact H2|lia].
Qed.

(* ---------------------------------------------------------------- compareNodes is total *)
Lemma compare_total : forall k from to, (vdepth from < k)%nat -> exists r, compare k from to = Some r.
Proof.
  induction k as [|k IH]; intros from to Hk; [lia|]. cbn [compare].
  destruct (negb (N.eqb (vtype from) (vtype to))); [eexists; reflexivity|].
  destruct (N.eqb (vtype from) T_object); [eexists; reflexivity|].
  destruct from as [tf|pf|tf af|tf inf ef|tf enf xs|tf xs];
    destruct to as [tt|pt|tt at_|tt it et|tt ent ys|tt ys]; try (eexists; reflexivity).
  - simpl in Hk. apply IH. lia.
  - simpl in Hk.
    assert (forall x, In x xs -> (vdepth x < k)%nat) as Hd by (intros x Hx; apply vdepth_in in Hx; lia).
    assert (forallb (fun x => forallb (fun y => match compare k x y with Some _ => true | None => false end) ys) xs = true) as Hok.
    { apply forallb_forall. intros x Hx. apply forallb_forall. intros y _. destruct (IH x y (Hd x Hx)) as [r ->]. reflexivity. }
    rewrite Hok. cbn [negb].
    destruct (difference_total (fun i j => match compare k (nthv xs i) (nthv ys j) with Some r => r | None => r0 end) (zlen xs) (zlen ys)
                ltac:(unfold zlen; lia) ltac:(unfold zlen; lia)) as [es ->].
    eexists; reflexivity.
  - simpl in Hk.
    assert (forall x, In x xs -> (vdepth x < k)%nat) as Hd by (intros x Hx; apply vdepth_in in Hx; lia).
    clear Hk. revert ys. induction xs as [|x xs IHxs]; intros ys; [eexists; reflexivity|].
    destruct ys as [|y ys]; [eexists; reflexivity|].
    destruct (IH x y (Hd x (or_introl eq_refl))) as [a ->].
    destruct (IHxs (fun x0 Hx0 => Hd x0 (or_intror Hx0)) ys) as [b ->]. eexists; reflexivity.
Qed.

(* ---------------------------------------------------------------- compareNodes on equal trees *)
Lemma sum_ids res : forall m i, (forall j, i <= j < i + Z.of_nat m -> num_diff (res j j) = 0) ->
  num_diff (sum_script res (repeat Identity m) i i) = 0.
Proof.
  induction m as [|m IH]; intros i H; [reflexivity|]. cbn [repeat sum_script radd num_diff].
  rewrite (H i) by lia. rewrite IH; [reflexivity|]. intros j Hj. apply H. lia.
Qed.

Lemma compare_same : forall k x y r, same x y -> compare k x y = Some r -> num_diff r = 0.
Proof.
  induction k as [|k IH]; intros x y r Hs H; [discriminate|]. cbn [compare] in H.
  rewrite (same_vtype x y Hs), N.eqb_refl in H. cbn [negb] in H.
  destruct (N.eqb (vtype y) T_object); [inversion H; reflexivity|].
  destruct x as [tf|pf|tf af|tf inf ef|tf enf xs|tf xs];
    destruct y as [tt|pt|tt at_|tt it et|tt ent ys|tt ys]; simpl in Hs; try contradiction.
  - inversion H; reflexivity.
  - rewrite Hs, Bool.eqb_reflx in H. inversion H; reflexivity.
  - destruct Hs as [_ ->]. rewrite N.eqb_refl in H. inversion H; reflexivity.
  - destruct Hs as [_ Hs]. exact (IH ef et r Hs H).
  - change (same (VSlice tf enf xs) (VSlice tt ent ys)) in Hs. rewrite same_slice in Hs. destruct Hs as [_ [_ Hs]].
    destruct (negb _); [discriminate|].
    set (res := fun i j => match compare k (nthv xs i) (nthv ys j) with Some r => r | None => r0 end) in *.
    assert (forall i, 0 <= i < zlen xs -> num_diff (res i i) = 0) as Hd.
    { intros i Hi. unfold res. destruct (compare k (nthv xs i) (nthv ys i)) as [ri|] eqn:E; [|reflexivity].
      apply (IH _ _ _ (same_all_nth xs ys (Z.to_nat i) Hs ltac:(unfold zlen in Hi; lia)) E). }
    assert (zlen ys = zlen xs) as El by (unfold zlen; rewrite (same_all_length xs ys Hs); reflexivity).
    rewrite El in H.
    rewrite (difference_diagonal res (zlen xs) ltac:(unfold zlen; lia)) in H
      by (intros i Hi; unfold r_equal; rewrite (Hd i Hi); reflexivity).
    inversion H; subst. unfold ids. apply sum_ids. intros j Hj. apply Hd. unfold zlen in *. lia.
  - change (same (VStruct tf xs) (VStruct tt ys)) in Hs. rewrite same_struct in Hs. destruct Hs as [_ Hs].
    revert ys r Hs H. induction xs as [|x xs IHxs]; intros ys r Hs H.
    + destruct ys; inversion H; reflexivity.
    + destruct ys as [|y ys]; [contradiction|]. destruct Hs as [H1 H2].
      destruct (compare k x y) as [a|] eqn:Ea; [|discriminate].
      match type of H with context [match ?g with Some _ => _ | None => _ end] => destruct g as [b|] eqn:Eb; [|discriminate] end.
      inversion H; subst. cbn [radd num_diff]. rewrite (IH x y a H1 Ea), (IHxs ys b H2 Eb). reflexivity.
Qed.

(* diff.Difference over compareNodes pairs equal lists element by element *)
Theorem the_script_same xs ys : same_all xs ys -> the_script xs ys = repeat Identity (length xs).
Proof.
  intros Hs. unfold the_script.
  assert (zlen ys = zlen xs) as El by (unfold zlen; rewrite (same_all_length xs ys Hs); reflexivity).
  rewrite El.
  rewrite (difference_diagonal _ (zlen xs) ltac:(unfold zlen; lia)).
  - unfold ids, zlen. rewrite Nat2Z.id. reflexivity.
  - intros i Hi. unfold compare_nodes.
    pose proof (same_all_nth xs ys (Z.to_nat i) Hs ltac:(unfold zlen in Hi; lia)) as Hn. fold (nthv xs i) in Hn. fold (nthv ys i) in Hn.
    destruct (compare_total (S (vdepth (nthv xs i))) (nthv xs i) (nthv ys i) ltac:(lia)) as [r E]. rewrite E.
    unfold r_equal. rewrite (compare_same _ _ _ _ Hn E). reflexivity.
Qed.

(* ---------------------------------------------------------------- the walk of an equal subtree *)
Section W.
  Variable script : list value -> list value -> list edit.
  Hypothesis script_same : forall xs ys, same_all xs ys -> script xs ys = repeat Identity (length xs).

  Theorem walk_same : forall k nend r x y w, same x y -> walk script k nend r x y = Some w -> w_log w = [].
  Proof.
    induction k as [|k IH]; intros nend r x y w Hs H; [discriminate|]. cbn [walk] in H.
    rewrite (same_vtype x y Hs), N.eqb_refl in H. cbn [negb] in H.
    destruct (N.eqb (vtype y) T_object || N.eqb (vtype y) T_cgroup)%bool; [inversion H; reflexivity|].
    destruct x as [tf|pf|tf af|tf inf ef|tf enf xs|tf xs];
      destruct y as [tt|pt|tt at_|tt it et|tt ent ys|tt ys]; simpl in Hs; try contradiction.
    - inversion H; reflexivity.
    - rewrite Hs, Bool.eqb_reflx in H. inversion H; reflexivity.
    - destruct Hs as [_ ->]. rewrite N.eqb_refl in H. inversion H; reflexivity.
    - destruct Hs as [_ Hs].
      match type of H with context [walk script k ?ne r ef et] => destruct (walk script k ne r ef et) as [w'|] eqn:E; [|discriminate];
        inversion H; subst; cbn [w_log]; exact (IH ne r ef et w' Hs E) end.
    - change (same (VSlice tf enf xs) (VSlice tt ent ys)) in Hs. rewrite same_slice in Hs. destruct Hs as [_ [_ Hs]].
      destruct enf.
      + (* a list of nodes: every pair is Identity *)
        rewrite (script_same xs ys Hs) in H.
        set (regs := elem_regions r None xs) in *. clearbody regs.
        match type of H with context [ (fix go (es : list edit) (xs ys : list value) (regs : list region) {struct es} := _) _ xs ys regs ] =>
          set (go := (fix go (es : list edit) (xs ys : list value) (regs : list region) {struct es} : option (bool * list value * list region) := _)) in H end.
        assert (forall xs ys regs eq tos lg, go (repeat Identity (length xs)) xs ys regs = Some (eq, tos, lg) -> lg = []) as Hgo.
        { clear H Hs xs ys regs. induction xs as [|x xs IHxs]; intros ys regs eq tos lg Hg.
          - simpl in Hg. inversion Hg; reflexivity.
          - cbn [length repeat] in Hg. simpl in Hg. destruct ys as [|y ys]; [discriminate|]. destruct regs as [|rg regs]; [discriminate|].
            destruct (go (repeat Identity (length xs)) xs ys regs) as [[[eq' tos'] lg']|] eqn:E; [|discriminate].
            inversion Hg; subst. exact (IHxs ys regs _ _ _ E). }
        destruct (go (repeat Identity (length xs)) xs ys regs) as [[[eq tos] lg]|] eqn:E; [|discriminate].
        inversion H; subst. cbn [w_log]. exact (Hgo xs ys regs eq tos lg E).
      + rewrite (same_all_length xs ys Hs), Nat.eqb_refl in H. cbn [negb] in H.
        match type of H with context [ (fix go (xs ys : list value) {struct xs} := _) xs ys ] =>
          set (go := (fix go (xs ys : list value) {struct xs} : option (bool * list value * list region) := _)) in H end.
        assert (forall xs ys eq tos lg, same_all xs ys -> go xs ys = Some (eq, tos, lg) -> lg = []) as Hgo.
        { clear H Hs xs ys. induction xs as [|x xs IHxs]; intros ys eq tos lg Hs Hg.
          - simpl in Hg. inversion Hg; reflexivity.
          - destruct ys as [|y ys]; [contradiction|]. destruct Hs as [H1 H2]. simpl in Hg.
            destruct (walk script k nend r x y) as [w'|] eqn:Ew; [|discriminate].
            destruct (go xs ys) as [[[eq' tos'] lg']|] eqn:E; [|discriminate]. inversion Hg; subst.
            rewrite (IH nend r x y w' H1 Ew), (IHxs ys eq' tos' lg' H2 E). reflexivity. }
        destruct (go xs ys) as [[[eq tos] lg]|] eqn:E; [|discriminate]. inversion H; subst. cbn [w_log].
        exact (Hgo xs ys eq tos lg Hs E).
    - change (same (VStruct tf xs) (VStruct tt ys)) in Hs. rewrite same_struct in Hs. destruct Hs as [_ Hs].
      revert H. generalize (starts_of (end_of nend r) xs (fst r)) as ss. intros ss.
      generalize (fst (ends_of (end_of nend r) xs ss (snd r))) as es. intros es H.
      match type of H with context [ (fix go (xs ys : list value) (ss es : list Z) {struct xs} := _) xs ys ss es ] =>
        set (go := (fix go (xs ys : list value) (ss es : list Z) {struct xs} : option (bool * list value * list region) := _)) in H end.
      assert (forall xs ys ss es eq tos lg, same_all xs ys -> go xs ys ss es = Some (eq, tos, lg) -> lg = []) as Hgo.
      { clear H Hs xs ys ss es. induction xs as [|x xs IHxs]; intros ys ss es eq tos lg Hs Hg.
        - simpl in Hg. inversion Hg; reflexivity.
        - destruct ys as [|y ys]; [contradiction|]. destruct Hs as [H1 H2]. simpl in Hg.
          destruct ss as [|s ss]; [inversion Hg; reflexivity|]. destruct es as [|e es]; [inversion Hg; reflexivity|].
          destruct (walk script k nend (s, e) x y) as [w'|] eqn:Ew; [|discriminate].
          destruct (go xs ys ss es) as [[[eq' tos'] lg']|] eqn:E; [|discriminate]. inversion Hg; subst.
          rewrite (IH nend (s, e) x y w' H1 Ew), (IHxs ys ss es eq' tos' lg' H2 E). reflexivity. }
      destruct (go xs ys ss es) as [[[eq tos] lg]|] eqn:E; [|discriminate]. inversion H; subst. cbn [w_log].
      exact (Hgo xs ys ss es eq tos lg Hs E).
  Qed.
End W.

(* Snapshot.Diff of a tree against an equal one makes no Changed call *)
Theorem diff_snapshot_same from to w : same from to -> diff_snapshot from to = Some w -> w_log w = [].
Proof. intros Hs H. exact (walk_same the_script the_script_same _ _ _ _ _ _ Hs H). Qed.

(* ---------------------------------------------------------------- one declaration changed *)
(* two lists of the same length whose elements are the same except at index a, where compareNodes
   finds a difference: every other element is paired as identical *)
Theorem the_script_one_change xs ys (a : nat) :
  length xs = length ys -> (a < length xs)%nat ->
  (forall i, (i < length xs)%nat -> i <> a -> same (nth i xs (VNil 0)) (nth i ys (VNil 0))) ->
  r_equal (compare_nodes (nth a xs (VNil 0)) (nth a ys (VNil 0))) = false ->
  the_script xs ys =
    repeat Identity a
    ++ (if r_similar (compare_nodes (nth a xs (VNil 0)) (nth a ys (VNil 0))) then [Modified] else [UniqueX; UniqueY])
    ++ repeat Identity (length xs - a - 1).
Proof.
  intros Hl Ha Hs Hd. unfold the_script.
  assert (zlen ys = zlen xs) as El by (unfold zlen; rewrite Hl; reflexivity). rewrite El.
  set (f := fun i j => compare_nodes (nthv xs i) (nthv ys j)).
  rewrite (difference_one_change f (zlen xs) (Z.of_nat a)).
  - unfold mid, ids, f, nthv, zlen. rewrite !Nat2Z.id.
    replace (Z.to_nat (Z.of_nat (length xs) - Z.of_nat a - 1)) with (length xs - a - 1)%nat by lia. reflexivity.
  - unfold zlen. lia.
  - intros i Hi Hne. unfold f, compare_nodes, nthv.
    assert (same (nth (Z.to_nat i) xs (VNil 0)) (nth (Z.to_nat i) ys (VNil 0))) as Hn
      by (apply Hs; unfold zlen in Hi; lia).
    destruct (compare_total (S (vdepth (nth (Z.to_nat i) xs (VNil 0)))) (nth (Z.to_nat i) xs (VNil 0)) (nth (Z.to_nat i) ys (VNil 0)) ltac:(lia)) as [r E].
    rewrite E. unfold r_equal. rewrite (compare_same _ _ _ _ Hn E). reflexivity.
  - unfold f, nthv. rewrite Nat2Z.id. exact Hd.
Qed.

Lemma xedits_ids m : xedits (repeat Identity m) = repeat Identity m.
Proof. induction m as [|m IH]; [reflexivity|]. cbn [repeat xedits]. rewrite IH. reflexivity. Qed.

Lemma xedits_app_ids m es : xedits (repeat Identity m ++ es) = repeat Identity m ++ xedits es.
Proof. induction m as [|m IH]; [reflexivity|]. cbn [repeat app xedits]. rewrite IH. reflexivity. Qed.

Lemma nth_error_repeat {A} (x : A) m j : (j < m)%nat -> nth_error (repeat x m) j = Some x.
Proof. revert j. induction m as [|m IH]; intros j Hj; [lia|]. destruct j as [|j]; [reflexivity|]. cbn. apply IH. lia. Qed.

(* ... so the declarations a single-site step leaves alone are all paired as identical *)
Corollary one_change_others_identical xs ys (a j : nat) :
  length xs = length ys -> (a < length xs)%nat ->
  (forall i, (i < length xs)%nat -> i <> a -> same (nth i xs (VNil 0)) (nth i ys (VNil 0))) ->
  r_equal (compare_nodes (nth a xs (VNil 0)) (nth a ys (VNil 0))) = false ->
  (j < length xs)%nat -> j <> a ->
  nth_error (xedits (the_script xs ys)) j = Some Identity.
Proof.
  intros Hl Ha Hs Hd Hj Hne. rewrite (the_script_one_change xs ys a Hl Ha Hs Hd).
  rewrite xedits_app_ids.
  destruct (Nat.lt_ge_cases j a) as [L|G].
  - rewrite nth_error_app1 by (rewrite repeat_length; exact L). apply nth_error_repeat; exact L.
  - rewrite nth_error_app2 by (rewrite repeat_length; lia). rewrite repeat_length.
    destruct (r_similar _).
    + cbn [app xedits]. rewrite xedits_ids. destruct (j - a)%nat as [|d] eqn:Ed; [lia|]. cbn [nth_error].
      apply nth_error_repeat. lia.
    + cbn [app xedits]. rewrite xedits_ids. destruct (j - a)%nat as [|d] eqn:Ed; [lia|]. cbn [nth_error].
      apply nth_error_repeat. lia.
Qed.
