(* internal/diff.Difference (Model/AstDiff.v, [difference]): whenever it returns, the edit script
   is a path from (0, 0) to (nx, ny) in the edit graph whose diagonal steps marked Identity
   lie on pairs that compare equal: the script consumes each list exactly (walkSlice never
   indexes out of range), and only equal nodes hand their comments over. *)
From GP Require Import AstDiff.
From Coq Require Import Lia.
Local Open Scope Z_scope.

Section D.
  Variable f : Z -> Z -> result.

  (* [vpath es x y x' y']: es leads from (x, y) to (x', y') *)
  Inductive vpath : list edit -> Z -> Z -> Z -> Z -> Prop :=
  | v_nil x y : vpath [] x y x y
  | v_id es x y x' y' : r_equal (f x y) = true -> vpath es (x + 1) (y + 1) x' y' -> vpath (Identity :: es) x y x' y'
  | v_mod es x y x' y' : vpath es (x + 1) (y + 1) x' y' -> vpath (Modified :: es) x y x' y'
  | v_x es x y x' y' : vpath es (x + 1) y x' y' -> vpath (UniqueX :: es) x y x' y'
  | v_y es x y x' y' : vpath es x (y + 1) x' y' -> vpath (UniqueY :: es) x y x' y'.

  Lemma vpath_app es1 : forall es2 x y x1 y1 x2 y2,
    vpath es1 x y x1 y1 -> vpath es2 x1 y1 x2 y2 -> vpath (es1 ++ es2) x y x2 y2.
  Proof.
    induction es1 as [|e es1 IH]; intros es2 x y x1 y1 x2 y2 H1 H2; inversion H1; subst; simpl.
    - exact H2.
    - apply v_id; [assumption|eapply IH; eauto].
    - apply v_mod; eapply IH; eauto.
    - apply v_x; eapply IH; eauto.
    - apply v_y; eapply IH; eauto.
  Qed.

  (* one step at the end *)
  Definition step_ok (e : edit) (x y : Z) : Prop := match e with Identity => r_equal (f x y) = true | _ => True end.
  Definition dxe (e : edit) : Z := match e with UniqueY => 0 | _ => 1 end.
  Definition dye (e : edit) : Z := match e with UniqueX => 0 | _ => 1 end.

  Lemma vpath_one e x y : step_ok e x y -> vpath [e] x y (x + dxe e) (y + dye e).
  Proof.
    destruct e; simpl; intros H.
    - apply v_id; [exact H|apply v_nil].
    - apply v_x. replace (y + 0) with y by lia. apply v_nil.
    - apply v_y. replace (x + 0) with x by lia. apply v_nil.
    - apply v_mod. apply v_nil.
  Qed.

  (* the forward path: from (0,0) to its point; the reverse path, read backwards: from its point to (nx, ny) *)
  Variables nx ny : Z.
  Definition fwd_ok (p : path) : Prop := p_dir p = 1 /\ vpath (p_es p) 0 0 (p_x p) (p_y p).
  Definition rev_ok (p : path) : Prop := p_dir p = -1 /\ vpath (List.rev (p_es p)) (p_x p) (p_y p) nx ny.

  Lemma fwd_append p e : fwd_ok p -> step_ok e (p_x p) (p_y p) -> fwd_ok (p_append p e).
  Proof.
    intros [Hd Hv] Hs. split; [destruct e; simpl; exact Hd|].
    assert (vpath (p_es p ++ [e]) 0 0 (p_x p + dxe e) (p_y p + dye e)) as H
      by (eapply vpath_app; [exact Hv|apply vpath_one; exact Hs]).
    destruct e; simpl in *; rewrite Hd; try exact H.
    - replace (p_y p + 0) with (p_y p) in H by lia. exact H.
    - replace (p_x p + 0) with (p_x p) in H by lia. exact H.
  Qed.

  Lemma rev_append p e : rev_ok p -> step_ok e (p_x p - dxe e) (p_y p - dye e) -> rev_ok (p_append p e).
  Proof.
    intros [Hd Hv] Hs. split; [destruct e; simpl; exact Hd|].
    assert (vpath (e :: List.rev (p_es p)) (p_x p - dxe e) (p_y p - dye e) nx ny) as H.
    { change (e :: List.rev (p_es p)) with ([e] ++ List.rev (p_es p)). eapply vpath_app; [apply vpath_one; exact Hs|].
      replace (p_x p - dxe e + dxe e) with (p_x p) by lia. replace (p_y p - dye e + dye e) with (p_y p) by lia. exact Hv. }
    destruct e; simpl in *; rewrite Hd, rev_app_distr; simpl;
      repeat match goal with |- context [?a + -1] => replace (a + -1) with (a - 1) by lia end;
      repeat match goal with H : context [?a - 0] |- _ => replace (a - 0) with a in H by lia end; exact H.
  Qed.

  (* ---- connect ---- *)
  Lemma connect_fwd_ok : forall fuel p dx dy p', fwd_ok p -> p_x p <= dx -> p_y p <= dy ->
    connect_fwd f fuel p dx dy = Some p' -> fwd_ok p' /\ p_x p' = dx /\ p_y p' = dy.
  Proof.
    induction fuel as [|k IH]; intros p dx dy p' Hp Hx Hy H; [discriminate|]. cbn [connect_fwd] in H.
    pose proof Hp as [Hd _].
    destruct (Z.ltb_spec (p_x p) dx) as [Lx|Lx]; destruct (Z.ltb_spec (p_y p) dy) as [Ly|Ly]; cbn [andb] in H.
    - set (e := if r_equal (f (p_x p) (p_y p)) then Identity else if r_similar (f (p_x p) (p_y p)) then Modified
                else if dy - p_y p <=? dx - p_x p then UniqueX else UniqueY) in *.
      assert (step_ok e (p_x p) (p_y p)) as Hs.
      { unfold e. destruct (r_equal (f (p_x p) (p_y p))) eqn:E; [exact E|]. destruct (r_similar _); [exact I|]. destruct (_ <=? _); exact I. }
      apply (IH (p_append p e)) in H; [exact H|apply fwd_append; assumption| |];
        unfold e; destruct (r_equal _); try destruct (r_similar _); try destruct (_ <=? _); simpl; rewrite ?Hd; lia.
    - apply (IH (p_append p UniqueX)) in H; [exact H|apply fwd_append; [assumption|exact I]| |]; simpl; rewrite ?Hd; lia.
    - apply (IH (p_append p UniqueY)) in H; [exact H|apply fwd_append; [assumption|exact I]| |]; simpl; rewrite ?Hd; lia.
    - inversion H; subst. split; [exact Hp|lia].
  Qed.

  Lemma connect_rev_ok : forall fuel p dx dy p', rev_ok p -> dx <= p_x p -> dy <= p_y p ->
    connect_rev f fuel p dx dy = Some p' -> rev_ok p' /\ p_x p' = dx /\ p_y p' = dy.
  Proof.
    induction fuel as [|k IH]; intros p dx dy p' Hp Hx Hy H; [discriminate|]. cbn [connect_rev] in H.
    pose proof Hp as [Hd _].
    destruct (Z.ltb_spec dx (p_x p)) as [Lx|Lx]; destruct (Z.ltb_spec dy (p_y p)) as [Ly|Ly]; cbn [andb] in H.
    - set (e := if r_equal (f (p_x p - 1) (p_y p - 1)) then Identity else if r_similar (f (p_x p - 1) (p_y p - 1)) then Modified
                else if p_x p - dx <=? p_y p - dy then UniqueY else UniqueX) in *.
      assert (step_ok e (p_x p - dxe e) (p_y p - dye e)) as Hs.
      { unfold e. destruct (r_equal (f (p_x p - 1) (p_y p - 1))) eqn:E; [exact E|]. destruct (r_similar _); [exact I|]. destruct (_ <=? _); exact I. }
      apply (IH (p_append p e)) in H; [exact H|apply rev_append; assumption| |];
        unfold e; destruct (r_equal _); try destruct (r_similar _); try destruct (_ <=? _); simpl; rewrite ?Hd; lia.
    - apply (IH (p_append p UniqueX)) in H; [exact H|apply rev_append; [assumption|exact I]| |]; simpl; rewrite ?Hd; lia.
    - apply (IH (p_append p UniqueY)) in H; [exact H|apply rev_append; [assumption|exact I]| |]; simpl; rewrite ?Hd; lia.
    - inversion H; subst. split; [exact Hp|lia].
  Qed.

  (* ---- following matches ---- *)
  Lemma follow_fwd_ok : forall fuel p rx ry p', fwd_ok p -> p_x p <= rx -> p_y p <= ry ->
    follow_fwd f fuel p rx ry = Some p' -> fwd_ok p' /\ p_x p' <= rx /\ p_y p' <= ry.
  Proof.
    induction fuel as [|k IH]; intros p rx ry p' Hp Hx Hy H; [discriminate|]. cbn [follow_fwd] in H.
    pose proof Hp as [Hd _].
    destruct (Z.ltb_spec (p_x p) rx) as [Lx|Lx]; destruct (Z.ltb_spec (p_y p) ry) as [Ly|Ly]; cbn [andb] in H;
      try (inversion H; subst; split; [exact Hp|lia]).
    destruct (r_equal (f (p_x p) (p_y p))) eqn:E; [|inversion H; subst; split; [exact Hp|lia]].
    apply (IH (p_append p Identity)) in H; [exact H|apply fwd_append; [assumption|exact E]| |]; simpl; rewrite Hd; lia.
  Qed.

  Lemma follow_rev_ok : forall fuel p fx fy p', rev_ok p -> fx <= p_x p -> fy <= p_y p ->
    follow_rev f fuel p fx fy = Some p' -> rev_ok p' /\ fx <= p_x p' /\ fy <= p_y p'.
  Proof.
    induction fuel as [|k IH]; intros p fx fy p' Hp Hx Hy H; [discriminate|]. cbn [follow_rev] in H.
    pose proof Hp as [Hd _].
    destruct (Z.ltb_spec fx (p_x p)) as [Lx|Lx]; destruct (Z.ltb_spec fy (p_y p)) as [Ly|Ly]; cbn [andb] in H;
      try (inversion H; subst; split; [exact Hp|lia]).
    destruct (r_equal (f (p_x p - 1) (p_y p - 1))) eqn:E; [|inversion H; subst; split; [exact Hp|lia]].
    apply (IH (p_append p Identity)) in H; [exact H|apply rev_append; [assumption|exact E]| |]; simpl; rewrite Hd; lia.
  Qed.

  (* ---- the search state ---- *)
  Definition st_ok (s : dstate) : Prop :=
    fwd_ok (fwd s) /\ rev_ok (rev s) /\ p_x (fwd s) <= p_x (rev s) /\ p_y (fwd s) <= p_y (rev s).

  Lemma search_fwd_ok : forall fuel cfuel s s1 s2 i s', st_ok s ->
    search_fwd f fuel cfuel s s1 s2 i = Some s' -> st_ok s'.
  Proof.
    induction fuel as [|k IH]; intros cfuel s s1 s2 i s' Hs H; [discriminate|]. cbn [search_fwd] in H.
    destruct ((s1 && s2) || negb (0 <? budget s))%bool; [inversion H; subst; exact Hs|].
    cbv zeta in H.
    destruct ((p_x (rev s) <=? ffx s + zigzag i) || (ffy s - zigzag i <? p_y (fwd s)))%bool eqn:C1; [eapply IH; eauto|].
    destruct ((p_y (rev s) <=? ffy s - zigzag i) || (ffx s + zigzag i <? p_x (fwd s)))%bool eqn:C2; [eapply IH; eauto|].
    apply orb_false_iff in C1 as [C1a C1b]. apply orb_false_iff in C2 as [C2a C2b].
    apply Z.leb_gt in C1a, C2a. apply Z.ltb_ge in C1b, C2b.
    destruct Hs as [Hf [Hr [Hx Hy]]].
    destruct (r_equal (f (ffx s + zigzag i) (ffy s - zigzag i))) eqn:E.
    - destruct (connect f cfuel (fwd s) (ffx s + zigzag i) (ffy s - zigzag i)) as [fp|] eqn:Ec; [|discriminate].
      unfold connect in Ec. pose proof Hf as [Hd Hv]. rewrite Hd in Ec. change (0 <? 1) with true in Ec. change (0 <? -1) with false in Ec. cbv iota in Ec.
      apply connect_fwd_ok in Ec as [Hfp [Ex Ey]]; [|exact Hf|lia|lia].
      destruct (follow_fwd f cfuel (p_append fp Identity) (p_x (rev s)) (p_y (rev s))) as [fp'|] eqn:Ef; [|discriminate].
      pose proof Hfp as [Hdp _].
      apply follow_fwd_ok in Ef as [Hfp' [Fx Fy]];
        [|apply fwd_append; [exact Hfp|simpl; rewrite Ex, Ey; exact E]|simpl; rewrite Hdp; lia|simpl; rewrite Hdp; lia].
      eapply IH; [|exact H]. split; [exact Hfp'|split; [exact Hr|split; cbn [fwd rev]; assumption]].
    - eapply IH; [|exact H]. split; [exact Hf|split; [exact Hr|split; cbn [fwd rev]; assumption]].
  Qed.

  Lemma search_rev_ok : forall fuel cfuel s s1 s2 i s', st_ok s ->
    search_rev f fuel cfuel s s1 s2 i = Some s' -> st_ok s'.
  Proof.
    induction fuel as [|k IH]; intros cfuel s s1 s2 i s' Hs H; [discriminate|]. cbn [search_rev] in H.
    destruct ((s1 && s2) || negb (0 <? budget s))%bool; [inversion H; subst; exact Hs|].
    cbv zeta in H.
    destruct ((rfx s - zigzag i <=? p_x (fwd s)) || (p_y (rev s) <? rfy s + zigzag i))%bool eqn:C1; [eapply IH; eauto|].
    destruct ((rfy s + zigzag i <=? p_y (fwd s)) || (p_x (rev s) <? rfx s - zigzag i))%bool eqn:C2; [eapply IH; eauto|].
    apply orb_false_iff in C1 as [C1a C1b]. apply orb_false_iff in C2 as [C2a C2b].
    apply Z.leb_gt in C1a, C2a. apply Z.ltb_ge in C1b, C2b.
    destruct Hs as [Hf [Hr [Hx Hy]]].
    destruct (r_equal (f (rfx s - zigzag i - 1) (rfy s + zigzag i - 1))) eqn:E.
    - destruct (connect f cfuel (rev s) (rfx s - zigzag i) (rfy s + zigzag i)) as [rp|] eqn:Ec; [|discriminate].
      unfold connect in Ec. pose proof Hr as [Hd Hv]. rewrite Hd in Ec. change (0 <? 1) with true in Ec. change (0 <? -1) with false in Ec. cbv iota in Ec.
      apply connect_rev_ok in Ec as [Hrp [Ex Ey]]; [|exact Hr|lia|lia].
      destruct (follow_rev f cfuel (p_append rp Identity) (p_x (fwd s)) (p_y (fwd s))) as [rp'|] eqn:Ef; [|discriminate].
      pose proof Hrp as [Hdp _].
      apply follow_rev_ok in Ef as [Hrp' [Fx Fy]];
        [|apply rev_append; [exact Hrp|simpl; rewrite Ex, Ey; exact E]|simpl; rewrite Hdp; lia|simpl; rewrite Hdp; lia].
      eapply IH; [|exact H]. split; [exact Hf|split; [exact Hrp'|split; cbn [fwd rev]; assumption]].
    - eapply IH; [|exact H]. split; [exact Hf|split; [exact Hr|split; cbn [fwd rev]; assumption]].
  Qed.

  Lemma outer_ok : forall fuel sfuel cfuel s s', st_ok s -> outer f fuel sfuel cfuel s = Some s' -> st_ok s'.
  Proof.
    induction fuel as [|k IH]; intros sfuel cfuel s s' Hs H; [discriminate|]. cbn [outer] in H.
    destruct (done s); [inversion H; subst; exact Hs|].
    destruct (search_fwd f sfuel cfuel s false false 0) as [s1|] eqn:E1; [|discriminate].
    apply search_fwd_ok in E1; [|exact Hs]. cbv zeta in H.
    match type of H with context [if done ?t then _ else _] => set (s2 := t) in *; assert (st_ok s2) as Hs2 end.
    { unfold s2. destruct (_ <=? _); exact E1. }
    clearbody s2.
    destruct (done s2); [inversion H; subst; exact Hs2|].
    destruct (search_rev f sfuel cfuel s2 false false 0) as [s3|] eqn:E3; [|discriminate].
    apply search_rev_ok in E3; [|exact Hs2].
    eapply IH; [|exact H]. destruct (_ <=? _); exact E3.
  Qed.
End D.

(* the contract of Difference *)
Theorem difference_is_a_path f nx ny es : 0 <= nx -> 0 <= ny ->
  difference f nx ny = Some es -> vpath f es 0 0 nx ny.
Proof.
  intros Hx Hy H. unfold difference in H. cbv zeta in H.
  match type of H with context [outer f ?a ?b ?c ?s0] => destruct (outer f a b c s0) as [s|] eqn:E; [|discriminate];
    apply (outer_ok f nx ny) in E end.
  - destruct E as [Hf [Hr [Lx Ly]]].
    destruct (connect f _ (fwd s) (p_x (rev s)) (p_y (rev s))) as [fp|] eqn:Ec; [|discriminate].
    unfold connect in Ec. destruct Hf as [Hd Hv]. rewrite Hd in Ec. change (0 <? 1) with true in Ec. change (0 <? -1) with false in Ec. cbv iota in Ec.
    apply (connect_fwd_ok f) in Ec as [[_ Hfp] [Ex Ey]]; [|split; assumption|lia|lia].
    inversion H; subst. eapply vpath_app; [exact Hfp|]. rewrite Ex, Ey. apply Hr.
  - repeat split; cbn; try lia; apply v_nil.
Qed.

(* consequences: the script consumes both lists exactly *)
Fixpoint cx (es : list edit) : nat := match es with [] => O | UniqueY :: es' => cx es' | _ :: es' => S (cx es') end.
Fixpoint cy (es : list edit) : nat := match es with [] => O | UniqueX :: es' => cy es' | _ :: es' => S (cy es') end.

Lemma vpath_counts f es : forall x y x' y', vpath f es x y x' y' -> x' = x + Z.of_nat (cx es) /\ y' = y + Z.of_nat (cy es).
Proof.
  induction es as [|e es IH]; intros x y x' y' H; inversion H; subst; cbn [cx cy];
    try (match goal with H : vpath _ es _ _ _ _ |- _ => apply IH in H end); lia.
Qed.

Theorem difference_lengths f nx ny es : 0 <= nx -> 0 <= ny ->
  difference f nx ny = Some es -> Z.of_nat (cx es) = nx /\ Z.of_nat (cy es) = ny.
Proof. intros Hx Hy H. apply difference_is_a_path in H; try assumption. apply vpath_counts in H. lia. Qed.

(* ================================================================== termination: the fuel suffices *)
Section T.
  Variable f : Z -> Z -> result.

  Lemma connect_fwd_total : forall fuel p dx dy, p_dir p = 1 -> p_x p <= dx -> p_y p <= dy ->
    (Z.to_nat ((dx - p_x p) + (dy - p_y p)) < fuel)%nat -> connect_fwd f fuel p dx dy <> None.
  Proof.
    induction fuel as [|k IH]; intros p dx dy Hd Hx Hy Hf; [lia|]. cbn [connect_fwd].
    destruct (Z.ltb_spec (p_x p) dx) as [Lx|Lx]; destruct (Z.ltb_spec (p_y p) dy) as [Ly|Ly]; cbn [andb].
    - apply IH; destruct (r_equal _); try destruct (r_similar _); try destruct (_ <=? _); simpl; rewrite ?Hd; lia.
    - apply IH; simpl; rewrite ?Hd; lia.
    - apply IH; simpl; rewrite ?Hd; lia.
    - discriminate.
  Qed.

  Lemma connect_rev_total : forall fuel p dx dy, p_dir p = -1 -> dx <= p_x p -> dy <= p_y p ->
    (Z.to_nat ((p_x p - dx) + (p_y p - dy)) < fuel)%nat -> connect_rev f fuel p dx dy <> None.
  Proof.
    induction fuel as [|k IH]; intros p dx dy Hd Hx Hy Hf; [lia|]. cbn [connect_rev].
    destruct (Z.ltb_spec dx (p_x p)) as [Lx|Lx]; destruct (Z.ltb_spec dy (p_y p)) as [Ly|Ly]; cbn [andb].
    - apply IH; destruct (r_equal _); try destruct (r_similar _); try destruct (_ <=? _); simpl; rewrite ?Hd; lia.
    - apply IH; simpl; rewrite ?Hd; lia.
    - apply IH; simpl; rewrite ?Hd; lia.
    - discriminate.
  Qed.

  Lemma follow_fwd_total : forall fuel p rx ry, p_dir p = 1 ->
    (Z.to_nat (Z.max 0 (rx - p_x p)) < fuel)%nat -> follow_fwd f fuel p rx ry <> None.
  Proof.
    induction fuel as [|k IH]; intros p rx ry Hd Hf; [lia|]. cbn [follow_fwd].
    destruct (Z.ltb_spec (p_x p) rx) as [Lx|Lx]; destruct (Z.ltb_spec (p_y p) ry) as [Ly|Ly]; cbn [andb]; try discriminate.
    destruct (r_equal _); [|discriminate]. apply IH; simpl; rewrite ?Hd; lia.
  Qed.

  Lemma follow_rev_total : forall fuel p fx fy, p_dir p = -1 ->
    (Z.to_nat (Z.max 0 (p_x p - fx)) < fuel)%nat -> follow_rev f fuel p fx fy <> None.
  Proof.
    induction fuel as [|k IH]; intros p fx fy Hd Hf; [lia|]. cbn [follow_rev].
    destruct (Z.ltb_spec fx (p_x p)) as [Lx|Lx]; destruct (Z.ltb_spec fy (p_y p)) as [Ly|Ly]; cbn [andb]; try discriminate.
    destruct (r_equal _); [|discriminate]. apply IH; simpl; rewrite ?Hd; lia.
  Qed.
End T.

Section G.
  Variable f : Z -> Z -> result.

  (* geometry of the loops: direction and end point *)
  Lemma connect_fwd_pt : forall fuel p dx dy p', p_dir p = 1 -> p_x p <= dx -> p_y p <= dy ->
    connect_fwd f fuel p dx dy = Some p' -> p_dir p' = 1 /\ p_x p' = dx /\ p_y p' = dy.
  Proof.
    induction fuel as [|k IH]; intros p dx dy p' Hd Hx Hy H; [discriminate|]. cbn [connect_fwd] in H.
    destruct (Z.ltb_spec (p_x p) dx) as [Lx|Lx]; destruct (Z.ltb_spec (p_y p) dy) as [Ly|Ly]; cbn [andb] in H.
    - apply IH in H; [exact H| | |]; destruct (r_equal _); try destruct (r_similar _); try destruct (_ <=? _); simpl; rewrite ?Hd; lia.
    - apply IH in H; [exact H| | |]; simpl; rewrite ?Hd; lia.
    - apply IH in H; [exact H| | |]; simpl; rewrite ?Hd; lia.
    - inversion H; subst. lia.
  Qed.

  Lemma connect_rev_pt : forall fuel p dx dy p', p_dir p = -1 -> dx <= p_x p -> dy <= p_y p ->
    connect_rev f fuel p dx dy = Some p' -> p_dir p' = -1 /\ p_x p' = dx /\ p_y p' = dy.
  Proof.
    induction fuel as [|k IH]; intros p dx dy p' Hd Hx Hy H; [discriminate|]. cbn [connect_rev] in H.
    destruct (Z.ltb_spec dx (p_x p)) as [Lx|Lx]; destruct (Z.ltb_spec dy (p_y p)) as [Ly|Ly]; cbn [andb] in H.
    - apply IH in H; [exact H| | |]; destruct (r_equal _); try destruct (r_similar _); try destruct (_ <=? _); simpl; rewrite ?Hd; lia.
    - apply IH in H; [exact H| | |]; simpl; rewrite ?Hd; lia.
    - apply IH in H; [exact H| | |]; simpl; rewrite ?Hd; lia.
    - inversion H; subst. lia.
  Qed.

  Lemma follow_fwd_pt : forall fuel p rx ry p', p_dir p = 1 -> p_x p <= rx -> p_y p <= ry ->
    follow_fwd f fuel p rx ry = Some p' ->
    p_dir p' = 1 /\ p_x p <= p_x p' <= rx /\ p_y p <= p_y p' <= ry /\ p_x p + p_y p <= p_x p' + p_y p'.
  Proof.
    induction fuel as [|k IH]; intros p rx ry p' Hd Hx Hy H; [discriminate|]. cbn [follow_fwd] in H.
    destruct (Z.ltb_spec (p_x p) rx) as [Lx|Lx]; destruct (Z.ltb_spec (p_y p) ry) as [Ly|Ly]; cbn [andb] in H;
      try (inversion H; subst; lia).
    destruct (r_equal _); [|inversion H; subst; lia].
    apply IH in H; [|simpl; rewrite ?Hd; lia..]. simpl in H. rewrite Hd in H. lia.
  Qed.

  Lemma follow_rev_pt : forall fuel p fx fy p', p_dir p = -1 -> fx <= p_x p -> fy <= p_y p ->
    follow_rev f fuel p fx fy = Some p' ->
    p_dir p' = -1 /\ fx <= p_x p' <= p_x p /\ fy <= p_y p' <= p_y p /\ p_x p' + p_y p' <= p_x p + p_y p.
  Proof.
    induction fuel as [|k IH]; intros p fx fy p' Hd Hx Hy H; [discriminate|]. cbn [follow_rev] in H.
    destruct (Z.ltb_spec fx (p_x p)) as [Lx|Lx]; destruct (Z.ltb_spec fy (p_y p)) as [Ly|Ly]; cbn [andb] in H;
      try (inversion H; subst; lia).
    destruct (r_equal _); [|inversion H; subst; lia].
    apply IH in H; [|simpl; rewrite ?Hd; lia..]. simpl in H. rewrite Hd in H. lia.
  Qed.
End G.

Section T2.
  Variable f : Z -> Z -> result.
  Variables nx ny : Z.
  Hypothesis Hnx : 0 <= nx.
  Hypothesis Hny : 0 <= ny.

  Lemma zigzag_spec i : 0 <= i ->
    (exists m, 0 <= m /\ i = 2 * m /\ zigzag i = m) \/ (exists m, 0 <= m /\ i = 2 * m + 1 /\ zigzag i = - (m + 1)).
  Proof.
    intros Hi. unfold zigzag. destruct (Z.odd i) eqn:O.
    - right. apply Z.odd_spec in O as [m ->]. exists m. split; [lia|]. split; [reflexivity|].
      replace (2 * m + 1 + 1) with ((m + 1) * 2) by lia. rewrite Z.div_mul by lia. reflexivity.
    - left. assert (Z.even i = true) as E by (rewrite <- Z.negb_odd, O; reflexivity).
      apply Z.even_spec in E as [m ->]. exists m. split; [lia|]. split; [reflexivity|].
      replace (2 * m) with (m * 2) by lia. apply Z.div_mul. lia.
  Qed.

  (* the two paths lie in the edit graph, the forward one before the reverse one *)
  Definition geo (s : dstate) : Prop :=
    p_dir (fwd s) = 1 /\ p_dir (rev s) = -1 /\
    0 <= p_x (fwd s) /\ p_x (fwd s) <= p_x (rev s) /\ p_x (rev s) <= nx /\
    0 <= p_y (fwd s) /\ p_y (fwd s) <= p_y (rev s) /\ p_y (rev s) <= ny.

  Let K := nx + ny + 1.
  Let cfuel := S (S (Z.to_nat (nx + ny))).

  Lemma search_fwd_spec : forall fuel s st1 st2 i, geo s -> 0 <= ffx s <= nx -> 0 <= ffy s <= ny -> 0 <= i ->
    (2 * K < i -> st1 = true) -> (2 * K + 1 < i -> st2 = true) ->
    (Z.to_nat (2 * K + 4 - i) < fuel)%nat ->
    exists s', search_fwd f fuel cfuel s st1 st2 i = Some s' /\ geo s' /\ rev s' = rev s /\ rfx s' = rfx s /\ rfy s' = rfy s
               /\ 0 <= ffx s' <= nx /\ 0 <= ffy s' <= ny /\ ffx s + ffy s <= ffx s' + ffy s'.
  Proof.
    induction fuel as [|k IH]; intros s st1 st2 i Hg HA HB Hi F1 F2 Hf; [lia|]. cbn [search_fwd].
    destruct ((st1 && st2) || negb (0 <? budget s))%bool eqn:Stop.
    { exists s. repeat split; try assumption; try lia; apply Hg. }
    assert (i <= 2 * K + 1) as Hile.
    { destruct (Z_le_gt_dec i (2 * K + 1)) as [L|G]; [exact L|]. rewrite F1, F2 in Stop by lia. discriminate. }
    cbv zeta.
    pose proof Hg as [Df [Dr [X0 [X1 [X2 [Y0 [Y1 Y2]]]]]]].
    assert (forall z, (p_x (rev s) <=? ffx s + z) || (ffy s - z <? p_y (fwd s)) = false ->
                      (p_y (rev s) <=? ffy s - z) || (ffx s + z <? p_x (fwd s)) = false ->
                      r_equal (f (ffx s + z) (ffy s - z)) = true ->
                      exists s', match connect f cfuel (fwd s) (ffx s + z) (ffy s - z) with
                                 | Some fp => match follow_fwd f cfuel (p_append fp Identity) (p_x (rev s)) (p_y (rev s)) with
                                              | Some fp' => search_fwd f k cfuel {| fwd := fp'; rev := rev s; ffx := p_x fp'; ffy := p_y fp';
                                                                                  rfx := rfx s; rfy := rfy s; budget := budget s |} true true (i + 1)
                                              | None => None end
                                 | None => None end = Some s'
                                 /\ geo s' /\ rev s' = rev s /\ rfx s' = rfx s /\ rfy s' = rfy s
                                 /\ 0 <= ffx s' <= nx /\ 0 <= ffy s' <= ny /\ ffx s + ffy s <= ffx s' + ffy s') as Hmatch.
    { intros z C1 C2 E.
      apply orb_false_iff in C1 as [C1a C1b]. apply Z.leb_gt in C1a. apply Z.ltb_ge in C1b.
      apply orb_false_iff in C2 as [C2a C2b]. apply Z.leb_gt in C2a. apply Z.ltb_ge in C2b.
      destruct (connect f cfuel (fwd s) (ffx s + z) (ffy s - z)) as [fp|] eqn:Ec.
      2:{ exfalso. unfold connect in Ec. rewrite Df in Ec. change (0 <? 1) with true in Ec. cbv iota in Ec.
          revert Ec. apply connect_fwd_total; try assumption; try (unfold cfuel; lia). }
      unfold connect in Ec. rewrite Df in Ec. change (0 <? 1) with true in Ec. cbv iota in Ec.
      apply connect_fwd_pt in Ec as [Dfp [Efx Efy]]; [|assumption|lia|lia].
      destruct (follow_fwd f cfuel (p_append fp Identity) (p_x (rev s)) (p_y (rev s))) as [fp'|] eqn:Ef.
      2:{ exfalso. revert Ef. apply follow_fwd_total; [simpl; exact Dfp|]. simpl. rewrite Dfp. try (unfold cfuel; lia). }
      apply follow_fwd_pt in Ef as [Dfp' [[Gx0 Gx1] [[Gy0 Gy1] Gs]]]; [|simpl; exact Dfp|simpl; rewrite Dfp; lia|simpl; rewrite Dfp; lia].
      simpl in Gx0, Gy0, Gs. rewrite Dfp in Gx0, Gy0, Gs.
      destruct k as [|k']; [lia|]. cbn [search_fwd andb orb].
      eexists. split; [reflexivity|]. cbn [fwd rev ffx ffy rfx rfy budget].
      repeat split; cbn [fwd rev]; try assumption; try lia. }
    destruct (zigzag_spec i Hi) as [[m [Hm [Ei Ez]]]|[m [Hm [Ei Ez]]]]; rewrite Ez.
    - (* even index, z = m >= 0 *)
      destruct ((p_x (rev s) <=? ffx s + m) || (ffy s - m <? p_y (fwd s)))%bool eqn:C1.
      + apply IH; [exact Hg|exact HA|exact HB|lia|intros _; reflexivity|intros G; apply F2; lia|lia].
      + assert (m < K) as HmK.
        { pose proof C1 as C1'. apply orb_false_iff in C1' as [C1a _]. apply Z.leb_gt in C1a. unfold K. lia. }
        destruct ((p_y (rev s) <=? ffy s - m) || (ffx s + m <? p_x (fwd s)))%bool eqn:C2.
        * apply IH; [exact Hg|exact HA|exact HB|lia|intros G; lia|intros _; reflexivity|lia].
        * destruct (r_equal (f (ffx s + m) (ffy s - m))) eqn:E.
          -- exact (Hmatch m C1 C2 E).
          -- destruct (IH {| fwd := fwd s; rev := rev s; ffx := ffx s; ffy := ffy s; rfx := rfx s; rfy := rfy s; budget := budget s - 1 |}
                          st1 st2 (i + 1)) as [s' Hs']; [exact Hg|exact HA|exact HB|lia|intros G; lia|intros G; apply F2; lia|lia|].
             exists s'. exact Hs'.
    - (* odd index, z = -(m+1) < 0 *)
      replace (ffx s + - (m + 1)) with (ffx s - (m + 1)) by lia. replace (ffy s - - (m + 1)) with (ffy s + (m + 1)) by lia.
      destruct ((p_x (rev s) <=? ffx s - (m + 1)) || (ffy s + (m + 1) <? p_y (fwd s)))%bool eqn:C1.
      + assert (m + 1 < K) as HmK.
        { apply orb_true_iff in C1 as [C|C]; [apply Z.leb_le in C|apply Z.ltb_lt in C]; unfold K; lia. }
        apply IH; [exact Hg|exact HA|exact HB|lia|intros _; reflexivity|intros G; lia|lia].
      + destruct ((p_y (rev s) <=? ffy s + (m + 1)) || (ffx s - (m + 1) <? p_x (fwd s)))%bool eqn:C2.
        * apply IH; [exact Hg|exact HA|exact HB|lia|intros G; apply F1; lia|intros _; reflexivity|lia].
        * assert (m + 1 < K) as HmK.
          { pose proof C2 as C2'. apply orb_false_iff in C2' as [C2a _]. apply Z.leb_gt in C2a. unfold K. lia. }
          destruct (r_equal (f (ffx s - (m + 1)) (ffy s + (m + 1)))) eqn:E.
          -- specialize (Hmatch (- (m + 1))).
             replace (ffx s + - (m + 1)) with (ffx s - (m + 1)) in Hmatch by lia.
             replace (ffy s - - (m + 1)) with (ffy s + (m + 1)) in Hmatch by lia. exact (Hmatch C1 C2 E).
          -- destruct (IH {| fwd := fwd s; rev := rev s; ffx := ffx s; ffy := ffy s; rfx := rfx s; rfy := rfy s; budget := budget s - 1 |}
                          st1 st2 (i + 1)) as [s' Hs']; [exact Hg|exact HA|exact HB|lia|intros G; apply F1; lia|intros G; lia|lia|].
             exists s'. exact Hs'.
  Qed.

  Lemma search_rev_spec : forall fuel s st1 st2 i, geo s -> 0 <= rfx s <= nx -> 0 <= rfy s <= ny -> 0 <= i ->
    (2 * K < i -> st1 = true) -> (2 * K + 1 < i -> st2 = true) ->
    (Z.to_nat (2 * K + 4 - i) < fuel)%nat ->
    exists s', search_rev f fuel cfuel s st1 st2 i = Some s' /\ geo s' /\ fwd s' = fwd s /\ ffx s' = ffx s /\ ffy s' = ffy s
               /\ 0 <= rfx s' <= nx /\ 0 <= rfy s' <= ny /\ rfx s' + rfy s' <= rfx s + rfy s.
  Proof.
    induction fuel as [|k IH]; intros s st1 st2 i Hg HA HB Hi F1 F2 Hf; [lia|]. cbn [search_rev].
    destruct ((st1 && st2) || negb (0 <? budget s))%bool eqn:Stop.
    { exists s. repeat split; try assumption; try lia; apply Hg. }
    assert (i <= 2 * K + 1) as Hile.
    { destruct (Z_le_gt_dec i (2 * K + 1)) as [L|G]; [exact L|]. rewrite F1, F2 in Stop by lia. discriminate. }
    cbv zeta.
    pose proof Hg as [Df [Dr [X0 [X1 [X2 [Y0 [Y1 Y2]]]]]]].
    assert (forall z, (rfx s - z <=? p_x (fwd s)) || (p_y (rev s) <? rfy s + z) = false ->
                      (rfy s + z <=? p_y (fwd s)) || (p_x (rev s) <? rfx s - z) = false ->
                      r_equal (f (rfx s - z - 1) (rfy s + z - 1)) = true ->
                      exists s', match connect f cfuel (rev s) (rfx s - z) (rfy s + z) with
                                 | Some rp => match follow_rev f cfuel (p_append rp Identity) (p_x (fwd s)) (p_y (fwd s)) with
                                              | Some rp' => search_rev f k cfuel {| fwd := fwd s; rev := rp'; ffx := ffx s; ffy := ffy s;
                                                                                  rfx := p_x rp'; rfy := p_y rp'; budget := budget s |} true true (i + 1)
                                              | None => None end
                                 | None => None end = Some s'
                                 /\ geo s' /\ fwd s' = fwd s /\ ffx s' = ffx s /\ ffy s' = ffy s
                                 /\ 0 <= rfx s' <= nx /\ 0 <= rfy s' <= ny /\ rfx s' + rfy s' <= rfx s + rfy s) as Hmatch.
    { intros z C1 C2 E.
      apply orb_false_iff in C1 as [C1a C1b]. apply Z.leb_gt in C1a. apply Z.ltb_ge in C1b.
      apply orb_false_iff in C2 as [C2a C2b]. apply Z.leb_gt in C2a. apply Z.ltb_ge in C2b.
      destruct (connect f cfuel (rev s) (rfx s - z) (rfy s + z)) as [rp|] eqn:Ec.
      2:{ exfalso. unfold connect in Ec. rewrite Dr in Ec. change (0 <? -1) with false in Ec. cbv iota in Ec.
          revert Ec. apply connect_rev_total; try assumption; try (unfold cfuel; lia). }
      unfold connect in Ec. rewrite Dr in Ec. change (0 <? -1) with false in Ec. cbv iota in Ec.
      apply connect_rev_pt in Ec as [Drp [Erx Ery]]; [|assumption|lia|lia].
      destruct (follow_rev f cfuel (p_append rp Identity) (p_x (fwd s)) (p_y (fwd s))) as [rp'|] eqn:Ef.
      2:{ exfalso. revert Ef. apply follow_rev_total; [simpl; exact Drp|]. simpl. rewrite Drp. try (unfold cfuel; lia). }
      apply follow_rev_pt in Ef as [Drp' [[Gx0 Gx1] [[Gy0 Gy1] Gs]]]; [|simpl; exact Drp|simpl; rewrite Drp; lia|simpl; rewrite Drp; lia].
      simpl in Gx1, Gy1, Gs. rewrite Drp in Gx1, Gy1, Gs.
      destruct k as [|k']; [lia|]. cbn [search_rev andb orb].
      eexists. split; [reflexivity|]. cbn [fwd rev ffx ffy rfx rfy budget].
      repeat split; cbn [fwd rev]; try assumption; try lia. }
    destruct (zigzag_spec i Hi) as [[m [Hm [Ei Ez]]]|[m [Hm [Ei Ez]]]]; rewrite Ez.
    - (* even index, z = m >= 0 *)
      destruct ((rfx s - m <=? p_x (fwd s)) || (p_y (rev s) <? rfy s + m))%bool eqn:C1.
      + apply IH; [exact Hg|exact HA|exact HB|lia|intros _; reflexivity|intros G; apply F2; lia|lia].
      + assert (m < K) as HmK.
        { pose proof C1 as C1'. apply orb_false_iff in C1' as [C1a _]. apply Z.leb_gt in C1a. unfold K. lia. }
        destruct ((rfy s + m <=? p_y (fwd s)) || (p_x (rev s) <? rfx s - m))%bool eqn:C2.
        * apply IH; [exact Hg|exact HA|exact HB|lia|intros G; lia|intros _; reflexivity|lia].
        * destruct (r_equal (f (rfx s - m - 1) (rfy s + m - 1))) eqn:E.
          -- exact (Hmatch m C1 C2 E).
          -- destruct (IH {| fwd := fwd s; rev := rev s; ffx := ffx s; ffy := ffy s; rfx := rfx s; rfy := rfy s; budget := budget s - 1 |}
                          st1 st2 (i + 1)) as [s' Hs']; [exact Hg|exact HA|exact HB|lia|intros G; lia|intros G; apply F2; lia|lia|].
             exists s'. exact Hs'.
    - (* odd index, z = -(m+1) < 0 *)
      replace (rfx s - - (m + 1)) with (rfx s + (m + 1)) by lia. replace (rfy s + - (m + 1)) with (rfy s - (m + 1)) by lia.
      destruct ((rfx s + (m + 1) <=? p_x (fwd s)) || (p_y (rev s) <? rfy s - (m + 1)))%bool eqn:C1.
      + assert (m + 1 < K) as HmK.
        { apply orb_true_iff in C1 as [C|C]; [apply Z.leb_le in C|apply Z.ltb_lt in C]; unfold K; lia. }
        apply IH; [exact Hg|exact HA|exact HB|lia|intros _; reflexivity|intros G; lia|lia].
      + destruct ((rfy s - (m + 1) <=? p_y (fwd s)) || (p_x (rev s) <? rfx s + (m + 1)))%bool eqn:C2.
        * apply IH; [exact Hg|exact HA|exact HB|lia|intros G; apply F1; lia|intros _; reflexivity|lia].
        * assert (m + 1 < K) as HmK.
          { pose proof C2 as C2'. apply orb_false_iff in C2' as [C2a _]. apply Z.leb_gt in C2a. unfold K. lia. }
          destruct (r_equal (f (rfx s + (m + 1) - 1) (rfy s - (m + 1) - 1))) eqn:E.
          -- specialize (Hmatch (- (m + 1))).
             replace (rfx s - - (m + 1)) with (rfx s + (m + 1)) in Hmatch by lia.
             replace (rfy s + - (m + 1)) with (rfy s - (m + 1)) in Hmatch by lia. exact (Hmatch C1 C2 E).
          -- destruct (IH {| fwd := fwd s; rev := rev s; ffx := ffx s; ffy := ffy s; rfx := rfx s; rfy := rfy s; budget := budget s - 1 |}
                          st1 st2 (i + 1)) as [s' Hs']; [exact Hg|exact HA|exact HB|lia|intros G; apply F1; lia|intros G; lia|lia|].
             exists s'. exact Hs'.
  Qed.

  Let sfuel := (Z.to_nat (4 * (nx + ny)) + 2 * Z.to_nat (nx + ny) + 8)%nat.

  Lemma sfuel_enough : (Z.to_nat (2 * K + 4 - 0) < sfuel)%nat.
  Proof. unfold K, sfuel. lia. Qed.

  (* the outer loop: the frontiers approach each other *)
  Definition outer_inv (s : dstate) : Prop :=
    geo s /\ 0 <= ffx s /\ 0 <= ffy s /\ rfx s <= nx /\ rfy s <= ny.

  Lemma outer_total : forall fuel s, outer_inv s ->
    (Z.to_nat (Z.max 0 ((rfx s + rfy s) - (ffx s + ffy s))) < fuel)%nat ->
    exists s', outer f fuel sfuel cfuel s = Some s' /\ geo s'.
  Proof.
    induction fuel as [|k IH]; intros s [Hg [A0 [B0 [C1 D1]]]] Hf; [lia|]. cbn [outer].
    destruct (done s) eqn:Dn; [exists s; split; [reflexivity|exact Hg]|].
    unfold done in Dn. apply orb_false_iff in Dn as [Dn Db]. apply orb_false_iff in Dn as [Dx Dy].
    apply Z.leb_gt in Dx, Dy.
    destruct (search_fwd_spec sfuel s false false 0 Hg ltac:(lia) ltac:(lia) ltac:(lia)) as [s1 [E1 [G1 [R1 [Rx1 [Ry1 [FA1 [FB1 FS1]]]]]]]];
      [intros G; unfold K in G; lia|intros G; unfold K in G; lia|exact sfuel_enough|].
    rewrite E1. cbv zeta.
    match goal with |- context [if done ?t then _ else _] => set (s2 := t) end.
    assert (geo s2 /\ fwd s2 = fwd s1 /\ rev s2 = rev s1 /\ rfx s2 = rfx s /\ rfy s2 = rfy s /\ 0 <= ffx s2 /\ 0 <= ffy s2
            /\ ffx s + ffy s + 1 <= ffx s2 + ffy s2) as [G2 [F2 [R2 [Rx2 [Ry2 [A2 [B2 S2]]]]]]].
    { pose proof G1 as [g1 [g2 [g3 [g4 [g5 [g6 [g7 g8]]]]]]].
      unfold s2. destruct (_ <=? _); unfold geo; cbn [fwd rev ffx ffy rfx rfy]; repeat split; try assumption; try lia. }
    clearbody s2.
    destruct (done s2) eqn:Dn2; [exists s2; split; [reflexivity|exact G2]|].
    unfold done in Dn2. apply orb_false_iff in Dn2 as [Dn2 Db2]. apply orb_false_iff in Dn2 as [Dx2 Dy2].
    apply Z.leb_gt in Dx2, Dy2.
    destruct (search_rev_spec sfuel s2 false false 0 G2 ltac:(lia) ltac:(lia) ltac:(lia)) as [s3 [E3 [G3 [F3 [Fx3 [Fy3 [RA3 [RB3 RS3]]]]]]]];
      [intros G; unfold K in G; lia|intros G; unfold K in G; lia|exact sfuel_enough|].
    rewrite E3.
    match goal with |- context [outer f k sfuel cfuel ?t] => set (s4 := t) end.
    assert (outer_inv s4 /\ (rfx s4 + rfy s4) - (ffx s4 + ffy s4) <= (rfx s + rfy s) - (ffx s + ffy s) - 2) as [I4 M4].
    { pose proof G3 as [g1 [g2 [g3 [g4 [g5 [g6 [g7 g8]]]]]]].
      unfold s4, outer_inv. destruct (_ <=? _); unfold geo; cbn [fwd rev ffx ffy rfx rfy]; repeat split; try assumption; try lia. }
    clearbody s4. apply IH; [exact I4|lia].
  Qed.

  Theorem difference_total_aux : exists es, difference f nx ny = Some es.
  Proof.
    unfold difference. cbv zeta.
    match goal with |- context [outer f ?a ?b ?c ?s0] =>
      destruct (outer_total a s0) as [s [E [Df [Dr [X0 [X1 [X2 [Y0 [Y1 Y2]]]]]]]]] end.
    - repeat split; cbn; lia.
    - cbn. lia.
    - fold sfuel in E. fold cfuel in E. fold sfuel. fold cfuel. rewrite E.
      destruct (connect f cfuel (fwd s) (p_x (rev s)) (p_y (rev s))) as [fp|] eqn:Ec; [eauto|].
      exfalso. unfold connect in Ec. rewrite Df in Ec. change (0 <? 1) with true in Ec. cbv iota in Ec.
      revert Ec. apply connect_fwd_total; try assumption; try (unfold cfuel; lia).
  Qed.
End T2.

(* internal/diff.Difference terminates on every input (whatever the comparison function
   answers) and returns a path from (0, 0) to (nx, ny) *)
Theorem difference_total f nx ny : 0 <= nx -> 0 <= ny -> exists es, difference f nx ny = Some es.
Proof. intros Hx Hy. exact (difference_total_aux f nx ny Hx Hy). Qed.
