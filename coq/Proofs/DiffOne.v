(* internal/diff.Difference on two lists of the same length that differ at exactly one index: every
   other element is paired with its counterpart (Identity), whatever the comparison says off the
   diagonal; the differing pair is Modified when similar, else deleted and inserted. *)
From GP Require Import AstDiff DiffDiag.
From Coq Require Import Lia.
Local Open Scope Z_scope.

Section One.
  Variable f : Z -> Z -> result.
  Variables n a : Z.
  Hypothesis Ha : 0 <= a < n.
  Hypothesis Hdiag : forall i, 0 <= i < n -> i <> a -> r_equal (f i i) = true.
  Hypothesis Hdiff : r_equal (f a a) = false.

  Definition mid : list edit := if r_similar (f a a) then [Modified] else [UniqueX; UniqueY].

  Lemma ids_cons k : 0 <= k -> Identity :: ids k = ids (k + 1).
  Proof. intros Hk. unfold ids. replace (Z.to_nat (k + 1)) with (S (Z.to_nat k)) by lia. reflexivity. Qed.

  Lemma ids_snoc' k : 0 <= k -> ids k ++ [Identity] = ids (k + 1).
  Proof.
    intros Hk. unfold ids. replace (Z.to_nat (k + 1)) with (Z.to_nat k + 1)%nat by lia.
    rewrite repeat_app. reflexivity.
  Qed.

  (* forward along the diagonal from (x, x), x <= a: stops at (a, a) *)
  Lemma follow_to_a : forall fuel x es rx, 0 <= x <= a -> a < rx -> (Z.to_nat (a - x) < fuel)%nat ->
    follow_fwd f fuel {| p_dir := 1; p_x := x; p_y := x; p_es := es |} rx rx
    = Some {| p_dir := 1; p_x := a; p_y := a; p_es := es ++ ids (a - x) |}.
  Proof.
    induction fuel as [|k IH]; intros x es rx Hx Hr Hf; [lia|].
    cbn [follow_fwd p_x p_y].
    replace (x <? rx) with true by (symmetry; apply Z.ltb_lt; lia). cbn [andb].
    destruct (Z.eq_dec x a) as [->|Hne].
    - rewrite Hdiff. replace (a - a) with 0 by lia. unfold ids. cbn. rewrite app_nil_r. reflexivity.
    - rewrite (Hdiag x) by lia. unfold p_append. cbn [p_dir p_x p_y p_es].
      rewrite (IH (x + 1) (es ++ [Identity]) rx) by lia.
      f_equal. f_equal. rewrite <- app_assoc. f_equal. cbn [app].
      rewrite ids_cons by lia. f_equal. lia.
  Qed.

  (* backwards along the diagonal from (x, x), a < x: stops at (a + 1, a + 1) *)
  Lemma follow_back : forall fuel x es fx, a + 1 <= x <= n -> fx <= a -> (Z.to_nat (x - (a + 1)) < fuel)%nat ->
    follow_rev f fuel {| p_dir := -1; p_x := x; p_y := x; p_es := es |} fx fx
    = Some {| p_dir := -1; p_x := a + 1; p_y := a + 1; p_es := es ++ ids (x - (a + 1)) |}.
  Proof.
    induction fuel as [|k IH]; intros x es fx Hx Hfx Hf; [lia|].
    cbn [follow_rev p_x p_y].
    replace (fx <? x) with true by (symmetry; apply Z.ltb_lt; lia). cbn [andb].
    destruct (Z.eq_dec x (a + 1)) as [->|Hne].
    - replace (a + 1 - 1) with a by lia. rewrite Hdiff. replace (a + 1 - (a + 1)) with 0 by lia. unfold ids. cbn. rewrite app_nil_r. reflexivity.
    - rewrite (Hdiag (x - 1)) by lia. unfold p_append. cbn [p_dir p_x p_y p_es].
      replace (x + -1) with (x - 1) by lia.
      rewrite (IH (x - 1) (es ++ [Identity]) fx) by lia.
      f_equal. f_equal. rewrite <- app_assoc. f_equal. cbn [app].
      rewrite ids_cons by lia. f_equal. lia.
  Qed.

  (* across the differing pair *)
  Lemma connect_across fuel es : (2 < fuel)%nat ->
    connect f fuel {| p_dir := 1; p_x := a; p_y := a; p_es := es |} (a + 1) (a + 1)
    = Some {| p_dir := 1; p_x := a + 1; p_y := a + 1; p_es := es ++ mid |}.
  Proof.
    intros Hf. unfold connect. cbn [p_dir]. change (0 <? 1) with true. cbv iota.
    destruct fuel as [|[|[|k]]]; try lia.
    cbn [connect_fwd p_x p_y].
    replace (a <? a + 1) with true by (symmetry; apply Z.ltb_lt; lia). cbn [andb].
    rewrite Hdiff. unfold mid. destruct (r_similar (f a a)).
    - unfold p_append. cbn [p_dir p_x p_y p_es connect_fwd]. rewrite !Z.ltb_irrefl. cbn [andb]. reflexivity.
    - replace (a + 1 - a <=? a + 1 - a) with true by (symmetry; apply Z.leb_le; lia).
      unfold p_append. cbn [p_dir p_x p_y p_es connect_fwd].
      rewrite !Z.ltb_irrefl. cbn [andb].
      replace (a <? a + 1) with true by (symmetry; apply Z.ltb_lt; lia).
      cbn [p_dir p_x p_y p_es]. rewrite ?Z.ltb_irrefl. cbn [andb].
      rewrite <- app_assoc. reflexivity.
  Qed.

  Definition B : Z := 4 * (n + n).
  Definition p0 : path := {| p_dir := 1; p_x := 0; p_y := 0; p_es := [] |}.
  Definition q0 : path := {| p_dir := -1; p_x := n; p_y := n; p_es := [] |}.
  Definition fa : path := {| p_dir := 1; p_x := a; p_y := a; p_es := ids a |}.

  Lemma connect_here_fwd fuel p : (0 < fuel)%nat -> p_dir p = 1 -> connect f fuel p (p_x p) (p_y p) = Some p.
  Proof.
    intros Hf Hd. unfold connect. rewrite Hd. change (0 <? 1) with true. cbv iota. destruct fuel as [|k]; [lia|]. cbn [connect_fwd].
    rewrite !Z.ltb_irrefl. reflexivity.
  Qed.

  Lemma connect_here_rev fuel p : (0 < fuel)%nat -> p_dir p = -1 -> connect f fuel p (p_x p) (p_y p) = Some p.
  Proof.
    intros Hf Hd. unfold connect. rewrite Hd. change (0 <? -1) with false. cbv iota. destruct fuel as [|k]; [lia|]. cbn [connect_rev].
    rewrite !Z.ltb_irrefl. reflexivity.
  Qed.

  Lemma search_fwd_S k cfuel s st1 st2 i :
    search_fwd f (S k) cfuel s st1 st2 i =
    if (st1 && st2) || negb (0 <? budget s) then Some s else
    let z := zigzag i in
    let px := ffx s + z in
    let py := ffy s - z in
    if (p_x (rev s) <=? px) || (py <? p_y (fwd s)) then search_fwd f k cfuel s true st2 (i + 1)
    else if (p_y (rev s) <=? py) || (px <? p_x (fwd s)) then search_fwd f k cfuel s st1 true (i + 1)
    else if r_equal (f px py) then
      match connect f cfuel (fwd s) px py with
      | None => None
      | Some fp =>
          match follow_fwd f cfuel (p_append fp Identity) (p_x (rev s)) (p_y (rev s)) with
          | None => None
          | Some fp' =>
              search_fwd f k cfuel {| fwd := fp'; rev := rev s; ffx := p_x fp'; ffy := p_y fp';
                                      rfx := rfx s; rfy := rfy s; budget := budget s |} true true (i + 1)
          end
      end
    else search_fwd f k cfuel {| fwd := fwd s; rev := rev s; ffx := ffx s; ffy := ffy s;
                                 rfx := rfx s; rfy := rfy s; budget := budget s - 1 |} st1 st2 (i + 1).
  Proof. reflexivity. Qed.

  Lemma search_rev_S k cfuel s st1 st2 i :
    search_rev f (S k) cfuel s st1 st2 i =
    if (st1 && st2) || negb (0 <? budget s) then Some s else
    let z := zigzag i in
    let px := rfx s - z in
    let py := rfy s + z in
    if (px <=? p_x (fwd s)) || (p_y (rev s) <? py) then search_rev f k cfuel s true st2 (i + 1)
    else if (py <=? p_y (fwd s)) || (p_x (rev s) <? px) then search_rev f k cfuel s st1 true (i + 1)
    else if r_equal (f (px - 1) (py - 1)) then
      match connect f cfuel (rev s) px py with
      | None => None
      | Some rp =>
          match follow_rev f cfuel (p_append rp Identity) (p_x (fwd s)) (p_y (fwd s)) with
          | None => None
          | Some rp' =>
              search_rev f k cfuel {| fwd := fwd s; rev := rp'; ffx := ffx s; ffy := ffy s;
                                      rfx := p_x rp'; rfy := p_y rp'; budget := budget s |} true true (i + 1)
          end
      end
    else search_rev f k cfuel {| fwd := fwd s; rev := rev s; ffx := ffx s; ffy := ffy s;
                                 rfx := rfx s; rfy := rfy s; budget := budget s - 1 |} st1 st2 (i + 1).
  Proof. reflexivity. Qed.

  (* the forward search stops at the differing pair *)
  Lemma search_fwd_one sfuel cfuel : (3 < sfuel)%nat -> (Z.to_nat (n + n) < cfuel)%nat ->
    exists B', 0 < B' /\
      search_fwd f sfuel cfuel {| fwd := p0; rev := q0; ffx := 0; ffy := 0; rfx := n; rfy := n; budget := B |} false false 0
      = Some {| fwd := fa; rev := q0; ffx := a; ffy := a; rfx := n; rfy := n; budget := B' |}.
  Proof.
    intros Hs Hcf. assert (8 <= B) as HB by (unfold B; lia).
    destruct sfuel as [|[|[|[|k]]]]; try lia.
    destruct (Z.eq_dec a 0) as [E0|E0].
    - (* the first pair differs: three probes, no progress *)
      exists (B - 1). split; [lia|]. unfold fa. rewrite E0. rewrite E0 in Hdiff.
      (* probe 0: (0, 0) differs *)
      rewrite search_fwd_S. cbn [budget fwd rev ffx ffy andb orb p_x p_y p0 q0].
      replace (0 <? B) with true by (symmetry; apply Z.ltb_lt; lia). cbn [negb].
      change (zigzag 0) with 0. rewrite Z.add_0_r, Z.sub_0_r.
      replace (n <=? 0) with false by (symmetry; apply Z.leb_gt; lia). rewrite Z.ltb_irrefl. cbn [orb].
      rewrite Hdiff. change (0 + 1) with 1.
      (* probe 1: (-1, 1) is left of the forward point *)
      rewrite search_fwd_S. cbn [budget fwd rev ffx ffy andb orb p_x p_y p0 q0].
      replace (0 <? B - 1) with true by (symmetry; apply Z.ltb_lt; lia). cbn [negb].
      change (zigzag 1) with (-1). change (0 + -1) with (-1). change (0 - -1) with 1.
      replace (n <=? -1) with false by (symmetry; apply Z.leb_gt; lia).
      change (1 <? 0) with false. change (-1 <? 0) with true. cbn [orb]. rewrite Bool.orb_true_r.
      change (1 + 1) with 2.
      (* probe 2: (1, -1) is above it *)
      rewrite search_fwd_S. cbn [budget fwd rev ffx ffy andb orb p_x p_y p0 q0].
      replace (0 <? B - 1) with true by (symmetry; apply Z.ltb_lt; lia). cbn [negb].
      change (zigzag 2) with 1. change (0 + 1) with 1. change (0 - 1) with (-1).
      change (-1 <? 0) with true. rewrite Bool.orb_true_r.
      (* both directions are exhausted *)
      rewrite search_fwd_S. cbn [andb orb]. reflexivity.
    - (* the first pair is equal: follow the diagonal to the differing pair *)
      exists B. split; [lia|].
      rewrite search_fwd_S. cbn [budget fwd rev ffx ffy andb orb p_x p_y p0 q0].
      replace (0 <? B) with true by (symmetry; apply Z.ltb_lt; lia). cbn [negb].
      change (zigzag 0) with 0. rewrite Z.add_0_r, Z.sub_0_r.
      replace (n <=? 0) with false by (symmetry; apply Z.leb_gt; lia). rewrite Z.ltb_irrefl. cbn [orb].
      rewrite (Hdiag 0) by lia.
      pose proof (connect_here_fwd cfuel p0 ltac:(lia) eq_refl) as Hc. cbn [p_x p_y p0] in Hc. rewrite Hc.
      unfold p_append. cbn [p_dir p_x p_y p_es p0 app]. change (0 + 1) with 1.
      rewrite (follow_to_a cfuel 1 [Identity] n) by lia.
      rewrite search_fwd_S. cbn [andb orb]. unfold fa. f_equal. f_equal. f_equal. cbn [app]. rewrite ids_cons by lia. f_equal. lia.
  Qed.

  Definition ra : path := {| p_dir := -1; p_x := a + 1; p_y := a + 1; p_es := ids (n - a - 1) |}.

  (* the reverse search comes back to just behind the differing pair *)
  Lemma search_rev_one sfuel cfuel B' : (1 < sfuel)%nat -> (Z.to_nat (n + n) < cfuel)%nat -> 0 < B' -> a < n - 1 ->
    search_rev f sfuel cfuel {| fwd := fa; rev := q0; ffx := a + 1; ffy := a; rfx := n; rfy := n; budget := B' |} false false 0
    = Some {| fwd := fa; rev := ra; ffx := a + 1; ffy := a; rfx := a + 1; rfy := a + 1; budget := B' |}.
  Proof.
    intros Hs Hcf HB Hb. destruct sfuel as [|[|k]]; try lia.
    rewrite search_rev_S. cbn [budget fwd rev rfx rfy andb orb p_x p_y fa q0].
    replace (0 <? B') with true by (symmetry; apply Z.ltb_lt; lia). cbn [negb].
    change (zigzag 0) with 0. rewrite Z.add_0_r, Z.sub_0_r.
    replace (n <=? a) with false by (symmetry; apply Z.leb_gt; lia). rewrite Z.ltb_irrefl. cbn [orb].
    rewrite (Hdiag (n - 1)) by lia.
    pose proof (connect_here_rev cfuel q0 ltac:(lia) eq_refl) as Hc. cbn [p_x p_y q0] in Hc. rewrite Hc.
    unfold p_append. cbn [p_dir p_x p_y p_es q0 app]. replace (n + -1) with (n - 1) by lia.
    rewrite (follow_back cfuel (n - 1) [Identity] a) by lia.
    rewrite search_rev_S. cbn [andb orb p_x p_y]. unfold ra. f_equal. f_equal. f_equal. cbn [app].
    rewrite ids_cons by lia. f_equal. lia.
  Qed.

  Lemma outer_S k sfuel cfuel s :
    outer f (S k) sfuel cfuel s =
    if done s then Some s else
    match search_fwd f sfuel cfuel s false false 0 with
    | None => None
    | Some s1 =>
        let s2 := if p_y (rev s1) - ffy s1 <=? p_x (rev s1) - ffx s1
                  then {| fwd := fwd s1; rev := rev s1; ffx := ffx s1 + 1; ffy := ffy s1; rfx := rfx s1; rfy := rfy s1; budget := budget s1 |}
                  else {| fwd := fwd s1; rev := rev s1; ffx := ffx s1; ffy := ffy s1 + 1; rfx := rfx s1; rfy := rfy s1; budget := budget s1 |} in
        if done s2 then Some s2 else
        match search_rev f sfuel cfuel s2 false false 0 with
        | None => None
        | Some s3 =>
            let s4 := if rfy s3 - p_y (fwd s3) <=? rfx s3 - p_x (fwd s3)
                      then {| fwd := fwd s3; rev := rev s3; ffx := ffx s3; ffy := ffy s3; rfx := rfx s3 - 1; rfy := rfy s3; budget := budget s3 |}
                      else {| fwd := fwd s3; rev := rev s3; ffx := ffx s3; ffy := ffy s3; rfx := rfx s3; rfy := rfy s3 - 1; budget := budget s3 |} in
            outer f k sfuel cfuel s4
        end
    end.
  Proof. reflexivity. Qed.

  Lemma rev_ids k : List.rev (ids k) = ids k.
  Proof.
    unfold ids. induction (Z.to_nat k) as [|m IH]; [reflexivity|]. cbn [repeat List.rev]. rewrite IH.
    clear. induction m as [|m IH]; [reflexivity|]. cbn [repeat app]. f_equal. exact IH.
  Qed.

  Theorem difference_one_change : difference f n n = Some (ids a ++ mid ++ ids (n - a - 1)).
  Proof.
    unfold difference.
    set (cfuel := S (S (Z.to_nat (n + n)))).
    set (sfuel := (Z.to_nat (4 * (n + n)) + 2 * Z.to_nat (n + n) + 8)%nat).
    unfold cfuel at 1. rewrite outer_S.
    unfold done at 1. cbn [rfx ffx rfy ffy budget].
    replace (n <=? 0) with false by (symmetry; apply Z.leb_gt; lia).
    replace (4 * (n + n) =? 0) with false by (symmetry; apply Z.eqb_neq; lia). cbn [orb].
    destruct (search_fwd_one sfuel cfuel ltac:(unfold sfuel; lia) ltac:(unfold cfuel; lia)) as [B' [HB' E1]].
    unfold B, p0, q0 in E1. rewrite E1. cbv zeta. cbn [fwd rev ffx ffy rfx rfy budget p_x p_y].
    rewrite Z.leb_refl.
    unfold done at 1. cbn [rfx ffx rfy ffy budget].
    destruct (Z.eq_dec a (n - 1)) as [El|El].
    - (* the last pair differs *)
      replace (n <=? a + 1) with true by (symmetry; apply Z.leb_le; lia). cbn [orb fwd rev p_x p_y].
      replace n with (a + 1) at 1 2 by lia.
      unfold fa. rewrite (connect_across cfuel (ids a)) by (unfold cfuel; lia).
      cbn [p_es List.rev]. replace (n - a - 1) with 0 by lia. rewrite <- app_assoc. reflexivity.
    - replace (n <=? a + 1) with false by (symmetry; apply Z.leb_gt; lia).
      replace (n <=? a) with false by (symmetry; apply Z.leb_gt; lia).
      replace (B' =? 0) with false by (symmetry; apply Z.eqb_neq; lia). cbn [orb].
      pose proof (search_rev_one sfuel cfuel B' ltac:(unfold sfuel; lia) ltac:(unfold cfuel; lia) HB' ltac:(lia)) as E2.
      unfold q0 in E2. rewrite E2. cbn [fwd rev ffx ffy rfx rfy budget p_x p_y fa].
      replace (a + 1 - a <=? a + 1 - a) with true by (symmetry; apply Z.leb_le; lia).
      rewrite outer_S. unfold done. cbn [rfx ffx rfy ffy budget].
      replace (a + 1 - 1 <=? a + 1) with true by (symmetry; apply Z.leb_le; lia). cbn [orb fwd rev p_x p_y ra].
      unfold fa. rewrite (connect_across cfuel (ids a)) by (unfold cfuel; lia).
      cbn [p_es rev ra]. rewrite rev_ids. rewrite <- app_assoc. reflexivity.
  Qed.
End One.
