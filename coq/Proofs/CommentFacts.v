(* The comment bookkeeping only ever removes comments, and only those that lie entirely
   inside a span reported as changed and not reported as unchanged. *)
From GP Require Import Comments.
From Coq Require Import Lia.
Local Open Scope Z_scope.

(* ---- changed_intervals = plus \ minus, pointwise ---- *)
Lemma sub1_covers m a p :
  covers (sub1 m a) p <-> (fst a <= p < snd a) /\ ~ (fst m <= p < snd m).
Proof.
  unfold covers, sub1. destruct a as [s e], m as [ms me]. unfold nonempty. cbn [fst snd].
  destruct (Z.leb_spec me s) as [L1|L1]; cbn [orb].
  { split.
    - intros [i [[<-|[]] H]]. cbn in *. lia.
    - intros [H _]. exists (s, e). cbn. auto. }
  destruct (Z.leb_spec e ms) as [L2|L2]; cbn [orb].
  { split.
    - intros [i [[<-|[]] H']]. cbn in *. lia.
    - intros [H' _]. exists (s, e). cbn. auto. }
  destruct (Z.ltb_spec ms me) as [L3|L3]; cbn [negb].
  2:{ split.
    - intros [i [[<-|[]] H']]. cbn in *. lia.
    - intros [H' _]. exists (s, e). cbn. auto. }
  split.
  - intros [i [Hi Hp]]. apply in_app_iff in Hi as [Hi|Hi].
    + destruct (Z.ltb_spec s ms) as [L4|L4]; [|destruct Hi]. destruct Hi as [<-|[]]. cbn in *. lia.
    + destruct (Z.ltb_spec me e) as [L5|L5]; [|destruct Hi]. destruct Hi as [<-|[]]. cbn in *. lia.
  - intros [Hp Hn]. assert (p < ms \/ me <= p) as [L|R] by lia.
    + exists (s, ms). split; [|cbn; lia]. apply in_app_iff. left.
      destruct (Z.ltb_spec s ms) as [L4|L4]; [left; reflexivity|lia].
    + exists (me, e). split; [|cbn; lia]. apply in_app_iff. right.
      destruct (Z.ltb_spec me e) as [L5|L5]; [left; reflexivity|lia].
Qed.

Lemma sub_all_covers ps m p :
  covers (sub_all ps m) p <-> covers ps p /\ ~ (fst m <= p < snd m).
Proof.
  unfold sub_all. split.
  - intros [i [Hi Hp]]. apply in_flat_map in Hi as [a [Ha Hi]].
    assert (covers (sub1 m a) p) as C by (exists i; auto).
    apply sub1_covers in C as [C1 C2]. split; [exists a; auto|exact C2].
  - intros [[a [Ha Hp]] Hn].
    assert (covers (sub1 m a) p) as [i [Hi Hpi]] by (apply sub1_covers; auto).
    exists i. split; [apply in_flat_map; exists a; auto|exact Hpi].
Qed.

Lemma fold_sub_covers minus : forall ps p,
  covers (fold_left sub_all minus ps) p <-> covers ps p /\ ~ covers minus p.
Proof.
  induction minus as [|m minus IH]; intros ps p; cbn [fold_left].
  - split; [intros H; split; [exact H|intros [i [[] _]]]|tauto].
  - rewrite IH, sub_all_covers. split.
    + intros [[H1 H2] H3]. split; [exact H1|]. intros [i [[<-|Hi] Hp]]; [tauto|]. apply H3. exists i. auto.
    + intros [H1 H2]. split; [split; [exact H1|]|].
      * intros Hm. apply H2. exists m. split; [left; reflexivity|exact Hm].
      * intros [i [Hi Hp]]. apply H2. exists i. split; [right; exact Hi|exact Hp].
Qed.

Lemma filter_nonempty_covers ps p : covers (filter nonempty ps) p <-> covers ps p.
Proof.
  split; intros [i [Hi Hp]].
  - apply filter_In in Hi as [Hi _]. exists i. auto.
  - exists i. split; [|exact Hp]. apply filter_In. split; [exact Hi|]. unfold nonempty. apply Z.ltb_lt. lia.
Qed.

(* ChangedIntervals: exactly the positions reported changed and not reported unchanged *)
Theorem changed_intervals_spec plus minus p :
  covers (changed_intervals plus minus) p <-> covers plus p /\ ~ covers minus p.
Proof. unfold changed_intervals. rewrite fold_sub_covers, filter_nonempty_covers. tauto. Qed.

(* ---- cleanup ---- *)
Inductive sublist {A} : list A -> list A -> Prop :=
| sl_nil : sublist [] []
| sl_skip x l1 l2 : sublist l1 l2 -> sublist l1 (x :: l2)
| sl_keep x l1 l2 : sublist l1 l2 -> sublist (x :: l1) (x :: l2).

Lemma sublist_refl {A} (l : list A) : sublist l l.
Proof. induction l as [|x l IH]; [apply sl_nil|apply sl_keep; exact IH]. Qed.

Lemma sublist_trans {A} (l1 l2 l3 : list A) : sublist l1 l2 -> sublist l2 l3 -> sublist l1 l3.
Proof.
  intros H12 H23. revert l1 H12. induction H23 as [|x l2 l3 H IH|x l2 l3 H IH]; intros l1 H12.
  - exact H12.
  - apply sl_skip. apply IH. exact H12.
  - inversion H12; subst; [apply sl_skip; apply IH; assumption|apply sl_keep; apply IH; assumption].
Qed.

Lemma sublist_filter {A} (f : A -> bool) (l : list A) : sublist (filter f l) l.
Proof. induction l as [|x l IH]; simpl; [apply sl_nil|]. destruct (f x); [apply sl_keep|apply sl_skip]; exact IH. Qed.

Lemma sublist_In {A} (l1 l2 : list A) x : sublist l1 l2 -> In x l1 -> In x l2.
Proof. induction 1; simpl; intros; tauto || (destruct H0; [left|right]; auto). Qed.

Lemma sublist_length {A} (l1 l2 : list A) : sublist l1 l2 -> (length l1 <= length l2)%nat.
Proof. induction 1; simpl; lia. Qed.

Lemma sublist_count {A} (f : A -> bool) (l1 l2 : list A) :
  sublist l1 l2 -> (length (filter f l1) <= length (filter f l2))%nat.
Proof. induction 1; simpl; try destruct (f x); simpl; lia. Qed.

Lemma cleanup1_sublist cs i : sublist (cleanup1 cs i) cs.
Proof. unfold cleanup1. destruct (fst i =? nopos); [apply sublist_refl|apply sublist_filter]. Qed.

(* nothing is invented, duplicated or reordered *)
Theorem cleanup_sublist ivs : forall cs, sublist (cleanup ivs cs) cs.
Proof.
  induction ivs as [|i ivs IH]; intros cs; cbn [cleanup fold_left]; [apply sublist_refl|].
  eapply sublist_trans; [apply IH|apply cleanup1_sublist].
Qed.

Definition removable (ivs : list iv) (c : cmt) : Prop :=
  exists i, In i ivs /\ fst i <> nopos /\ fst i <= c_pos c /\ c_end c <= snd i.

Lemma cleanup1_In cs i c : In c (cleanup1 cs i) <-> In c cs /\ ~ (fst i <> nopos /\ fst i <= c_pos c /\ c_end c <= snd i).
Proof.
  unfold cleanup1. destruct (Z.eqb_spec (fst i) nopos) as [E|E].
  - split; [intros H; split; [exact H|intros [H' _]; contradiction]|tauto].
  - rewrite filter_In. unfold inside. split.
    + intros [H1 H2]. split; [exact H1|]. intros [_ [A B]].
      apply Z.leb_le in A. apply Z.leb_le in B. rewrite A, B in H2. discriminate.
    + intros [H1 H2]. split; [exact H1|].
      destruct (Z.leb_spec (fst i) (c_pos c)); [|reflexivity].
      destruct (Z.leb_spec (c_end c) (snd i)); [|reflexivity]. exfalso. apply H2. auto.
Qed.

(* exactly the comments lying entirely inside some valid interval are removed *)
Theorem cleanup_In ivs : forall cs c, In c (cleanup ivs cs) <-> In c cs /\ ~ removable ivs c.
Proof.
  induction ivs as [|i ivs IH]; intros cs c; cbn [cleanup fold_left].
  - split; [intros H; split; [exact H|intros [j [[] _]]]|tauto].
  - fold (cleanup ivs (cleanup1 cs i)). rewrite IH, cleanup1_In. unfold removable. split.
    + intros [[H1 H2] H3]. split; [exact H1|]. intros [j [[<-|Hj] Hr]]; [tauto|]. apply H3. exists j. auto.
    + intros [H1 H2]. split; [split; [exact H1|]|].
      * intros Hr. apply H2. exists i. split; [left; reflexivity|exact Hr].
      * intros [j [Hj Hr]]. apply H2. exists j. split; [right; exact Hj|exact Hr].
Qed.

(* ---- several changes in a row ---- *)
Theorem run_steps_sublist steps : forall cs, sublist (run_steps steps cs) cs.
Proof.
  induction steps as [|s steps IH]; intros cs; cbn [run_steps fold_left]; [apply sublist_refl|].
  eapply sublist_trans; [apply IH|apply cleanup_sublist].
Qed.

Theorem run_steps_In steps : forall cs c,
  In c (run_steps steps cs) <->
  In c cs /\ forall s, In s steps -> ~ removable (changed_intervals (fst s) (snd s)) c.
Proof.
  induction steps as [|s steps IH]; intros cs c; cbn [run_steps fold_left].
  - split; [intros H; split; [exact H|intros s []]|tauto].
  - fold (run_steps steps (step cs s)). rewrite IH. unfold step. rewrite cleanup_In. split.
    + intros [[H1 H2] H3]. split; [exact H1|]. intros s' [<-|Hs]; [exact H2|apply H3; exact Hs].
    + intros [H1 H2]. split; [split; [exact H1|apply H2; left; reflexivity]|]. intros s' Hs. apply H2. right. exact Hs.
Qed.

(* a comment that is removed lies inside positions reported as changed and not reported
   as unchanged: in particular every position of it, when it is not empty *)
Lemma removable_covered plus minus c :
  removable (changed_intervals plus minus) c -> c_pos c < c_end c ->
  forall p, c_pos c <= p < c_end c -> covers plus p /\ ~ covers minus p.
Proof.
  intros [i [Hi [_ [A B]]]] Hne p Hp. apply changed_intervals_spec. exists i. split; [exact Hi|lia].
Qed.

(* the survival theorem used for whole declarations: if all spans reported as changed by
   every step lie within [lo, hi) then a comment that is not inside [lo, hi) survives *)
Theorem outside_changed_region_survives steps cs c lo hi :
  In c cs -> c_pos c < c_end c ->
  (forall s i, In s steps -> In i (fst s) -> fst i < snd i -> lo <= fst i /\ snd i <= hi) ->
  ~ (lo <= c_pos c /\ c_end c <= hi) ->
  In c (run_steps steps cs).
Proof.
  intros Hin Hne Hreg Hout. apply run_steps_In. split; [exact Hin|]. intros s Hs Hr.
  assert (forall p, c_pos c <= p < c_end c -> lo <= p < hi) as K.
  { intros p Hp. destruct (removable_covered _ _ _ Hr Hne p Hp) as [[i [Hi Hpi]] _].
    destruct (Hreg s i Hs Hi ltac:(lia)). lia. }
  pose proof (K (c_pos c) ltac:(lia)). pose proof (K (c_end c - 1) ltac:(lia)). lia.
Qed.

(* the same for an arbitrary set R of positions (several rewritten declarations) *)
Theorem outside_changed_set_survives steps cs c (R : Z -> Prop) :
  In c cs ->
  (forall s p, In s steps -> covers (fst s) p -> R p) ->
  (exists p, c_pos c <= p < c_end c /\ ~ R p) ->
  In c (run_steps steps cs).
Proof.
  intros Hin HR [p [Hp Hn]]. apply run_steps_In. split; [exact Hin|]. intros s Hs Hr.
  assert (c_pos c < c_end c) as Hne by lia.
  destruct (removable_covered _ _ _ Hr Hne p Hp) as [C _]. apply Hn. eapply HR; eauto.
Qed.
