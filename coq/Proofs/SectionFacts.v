From GP Require Import Bytes BytesFacts Section.
From Coq Require Import Lia Arith.
Local Open Scope nat_scope.

(* ------------------------------------------------------------------ comments *)
Definition noncomment (l : line) : bool := negb (is_comment (l_text l)).
Definition descr (l : line) : bytes := trim_space (tl (l_text l)).

(* the rest of the splitter sees exactly the non-comment lines, with their original offsets *)
Lemma items_lines ls : forall pend, map i_line (items_aux pend ls) = filter noncomment ls.
Proof.
  induction ls as [|l ls IH]; intros pend; simpl; [reflexivity|].
  unfold noncomment at 1. destruct (is_comment (l_text l)); simpl; [apply IH|]. f_equal. apply IH.
Qed.

(* a block of comment lines followed by a non-comment line: the block is that line's
   description, whatever came before the block *)
Lemma items_block cs : forall pend l post,
  Forall (fun c => is_comment (l_text c) = true) cs -> is_comment (l_text l) = false ->
  items_aux pend (cs ++ l :: post)
  = {| i_line := l; i_comments := pend ++ map descr cs |} :: items_aux [] post.
Proof.
  induction cs as [|c cs IH]; intros pend l post Hc Hl; simpl.
  - rewrite Hl, app_nil_r. reflexivity.
  - inversion Hc; subst. rewrite H1. rewrite IH by assumption.
    rewrite <- app_assoc. reflexivity.
Qed.

(* after a non-comment line the pending description is empty again *)
Lemma items_after pre : forall pend l rest,
  is_comment (l_text l) = false ->
  items_aux pend (pre ++ l :: rest) = items_aux pend (pre ++ [l]) ++ items_aux [] rest.
Proof.
  induction pre as [|p pre IH]; intros pend l rest Hl; simpl.
  - rewrite Hl. reflexivity.
  - destruct (is_comment (l_text p)); [apply IH; exact Hl|]. simpl. f_equal. apply IH. exact Hl.
Qed.

(* Only the '#' lines directly above a line are its description. *)
Theorem description_is_block_above pre l0 cs l post :
  is_comment (l_text l0) = false ->
  Forall (fun c => is_comment (l_text c) = true) cs -> is_comment (l_text l) = false ->
  exists before,
    items_aux [] (pre ++ l0 :: cs ++ l :: post)
    = before ++ {| i_line := l; i_comments := map descr cs |} :: items_aux [] post.
Proof.
  intros H0 Hc Hl. rewrite (items_after pre [] l0 _ H0).
  rewrite (items_block cs [] l post Hc Hl). simpl. eexists. reflexivity.
Qed.

(* ------------------------------------------------------------------ erasure of positions *)
Record echange := { e_name : bytes; e_meta : list bytes; e_at : bool; e_patch : list bytes }.

Definition erase_change (c : change) : echange :=
  {| e_name := c_name c; e_meta := map l_text (c_meta c);
     e_at := match c_at c with Some _ => true | None => false end;
     e_patch := map l_text (c_patch c) |}.

Inductive ekind := KBadName | KBadHeader | KNoMetaEnd | KNoChange.
Definition erase_err (e : serr) : ekind :=
  match e with
  | EBadName _ => KBadName | EBadHeader _ => KBadHeader
  | ENoMetaEnd _ => KNoMetaEnd | ENoChange _ => KNoChange
  end.

Inductive estate := ESHeader | ESMeta (c : echange) | ESPatch (c : echange).
Definition erase_state (s : sstate) : estate :=
  match s with
  | SHeader => ESHeader
  | SMeta c => ESMeta (erase_change c)
  | SPatch c => ESPatch (erase_change c)
  end.

Definition erase_acc (a : sacc) : list echange * list ekind * estate :=
  (map erase_change (a_done a), map erase_err (a_errs a), erase_state (a_state a)).

Definition text_of (it : item) : bytes := l_text (i_line it).

Lemma read_name_erased l1 l2 :
  l_text l1 = l_text l2 ->
  fst (read_name l1) = fst (read_name l2) /\
  map erase_err (snd (read_name l1)) = map erase_err (snd (read_name l2)).
Proof.
  intros H. unfold read_name. rewrite H.
  destruct (beq (l_text l2) atat); [auto|].
  destruct (l_text l2) as [|c rest]; [auto|].
  destruct (N.eqb c AT && Nat.ltb 2 (length (c :: rest)) && N.eqb (last (c :: rest) 0%N) AT); [|auto].
  destruct (validate_name (trim_space (removelast rest))); auto.
Qed.

Lemma open_change_erased a1 a2 it1 it2 :
  map erase_change (a_done a1) = map erase_change (a_done a2) ->
  map erase_err (a_errs a1) = map erase_err (a_errs a2) ->
  text_of it1 = text_of it2 ->
  erase_acc (open_change a1 it1) = erase_acc (open_change a2 it2).
Proof.
  intros Hd He Ht. unfold open_change.
  destruct (read_name_erased (i_line it1) (i_line it2) Ht) as [Hn Hr].
  destruct (read_name (i_line it1)) as [n1 e1]. destruct (read_name (i_line it2)) as [n2 e2].
  simpl in *. subst n2. unfold erase_acc. simpl. rewrite !map_app, Hd, He, Hr. reflexivity.
Qed.

(* one step: the erased successor depends only on the erased state and the line's text *)
Lemma sstep_erased a1 a2 it1 it2 :
  erase_acc a1 = erase_acc a2 -> text_of it1 = text_of it2 ->
  erase_acc (sstep a1 it1) = erase_acc (sstep a2 it2).
Proof.
  intros Ha Ht. unfold erase_acc in Ha. inversion Ha as [[Hd He Hs]].
  unfold sstep. unfold text_of in Ht. rewrite Ht.
  destruct (a_state a1) as [|c1|c1] eqn:S1, (a_state a2) as [|c2|c2] eqn:S2; cbn [erase_state] in Hs; try discriminate.
  - destruct (is_blank (l_text (i_line it2))); [unfold erase_acc; rewrite Hd, He, S1, S2; reflexivity|].
    apply open_change_erased; assumption.
  - assert (Hc : erase_change c1 = erase_change c2) by congruence. destruct (beq (l_text (i_line it2)) atat).
    + unfold erase_acc. simpl. rewrite Hd, He. unfold erase_change in *. simpl.
      inversion Hc. congruence.
    + unfold erase_acc. simpl. rewrite Hd, He. unfold erase_change in *. simpl.
      inversion Hc. rewrite !map_app. simpl. congruence.
  - assert (Hc : erase_change c1 = erase_change c2) by congruence. destruct (starts_with_at (l_text (i_line it2))).
    + apply open_change_erased; simpl; [|assumption|exact Ht].
      rewrite !map_app. simpl. rewrite Hd, Hc. reflexivity.
    + unfold erase_acc. simpl. rewrite Hd, He. unfold erase_change in *. simpl.
      inversion Hc. rewrite !map_app. simpl. congruence.
Qed.

Lemma fold_erased its1 : forall its2 a1 a2,
  erase_acc a1 = erase_acc a2 -> map text_of its1 = map text_of its2 ->
  erase_acc (fold_left sstep its1 a1) = erase_acc (fold_left sstep its2 a2).
Proof.
  induction its1 as [|i1 its1 IH]; intros [|i2 its2] a1 a2 Ha Ht; simpl in *; try discriminate; [exact Ha|].
  inversion Ht. apply IH; [|assumption]. apply sstep_erased; assumption.
Qed.

Definition erase_result (r : list change * list serr) : list echange * list ekind :=
  (map erase_change (fst r), map erase_err (snd r)).

Lemma sfinish_erased e1 e2 a1 a2 :
  erase_acc a1 = erase_acc a2 ->
  erase_result (sfinish e1 a1) = erase_result (sfinish e2 a2).
Proof.
  intros Ha. unfold erase_acc in Ha. inversion Ha as [[Hd He Hs]]. unfold sfinish, erase_result.
  destruct (a_state a1) as [|c1|c1], (a_state a2) as [|c2|c2]; cbn [erase_state] in Hs; try discriminate; simpl.
  - rewrite Hd, He. reflexivity.
  - assert (Hc : erase_change c1 = erase_change c2) by congruence. rewrite !map_app, Hd, He. simpl. unfold erase_change in *. simpl.
    inversion Hc. congruence.
  - assert (Hc : erase_change c1 = erase_change c2) by congruence. rewrite !map_app, Hd, He. simpl. rewrite Hc. reflexivity.
Qed.

(* What the splitter produces — names, section texts, structure, error kinds — is a
   function of the texts of the non-comment lines alone: '#' lines, and everything that
   only moves offsets, change nothing but positions and descriptions. *)
Theorem read_changes_layout e1 e2 its1 its2 :
  map text_of its1 = map text_of its2 ->
  erase_result (read_changes e1 its1) = erase_result (read_changes e2 its2).
Proof.
  intros H. unfold read_changes. apply sfinish_erased. apply fold_erased; [reflexivity|exact H].
Qed.

Lemma split_erased_eq c1 c2 :
  map l_text (filter noncomment (raw_lines c1)) = map l_text (filter noncomment (raw_lines c2)) ->
  erase_result (read_changes (length c1) (items c1)) = erase_result (read_changes (length c2) (items c2)).
Proof.
  intros H. apply read_changes_layout. unfold items, text_of.
  rewrite <- !(map_map i_line l_text), !items_lines. exact H.
Qed.

(* ------------------------------------------------------------------ blank lines before a header *)
Lemma blank_skipped a it :
  a_state a = SHeader -> is_blank (l_text (i_line it)) = true -> sstep a it = a.
Proof. intros Hs Hb. unfold sstep. rewrite Hs, Hb. reflexivity. Qed.

Theorem blank_lines_before_first_header blanks its e :
  Forall (fun it => is_blank (l_text (i_line it)) = true) blanks ->
  read_changes e (blanks ++ its) = read_changes e its.
Proof.
  intros Hb. unfold read_changes. rewrite fold_left_app. f_equal.
  induction Hb as [|b bs Hb1 Hb2 IH]; simpl; [reflexivity|].
  rewrite (blank_skipped a0 b eq_refl Hb1). exact IH.
Qed.

(* ------------------------------------------------------------------ naming a change *)
Definition good_header (t : bytes) : Prop :=
  starts_with_at t = true /\ forall off, snd (read_name {| l_off := off; l_text := t |}) = [].

Definition drop_name (c : echange) : echange :=
  {| e_name := []; e_meta := e_meta c; e_at := e_at c; e_patch := e_patch c |}.

Definition nameless_state (s : estate) : estate :=
  match s with
  | ESHeader => ESHeader
  | ESMeta c => ESMeta (drop_name c)
  | ESPatch c => ESPatch (drop_name c)
  end.

Definition nameless (x : list echange * list ekind * estate) : list echange * list ekind * estate :=
  let '(d, e, s) := x in (map drop_name d, e, nameless_state s).

Lemma read_name_errs_off t o1 o2 :
  map erase_err (snd (read_name {| l_off := o1; l_text := t |}))
  = map erase_err (snd (read_name {| l_off := o2; l_text := t |})).
Proof. apply read_name_erased. reflexivity. Qed.

Lemma good_header_no_err l : good_header (l_text l) -> snd (read_name l) = [].
Proof. intros [_ H]. destruct l as [o t]. apply H. Qed.

Lemma good_header_not_blank t : good_header t -> is_blank t = false.
Proof.
  intros [H _]. destruct t as [|c t]; [discriminate|]. simpl in H. apply N.eqb_eq in H. subst c.
  reflexivity.
Qed.

(* A header line is read in state SHeader or SPatch (never inside a metavariable section).
   Replacing it by another well-formed header — "@@" or "@ other_name @" — changes
   nothing but the name recorded for that change. *)
Lemma sstep_header_nameless a1 a2 h1 h2 :
  nameless (erase_acc a1) = nameless (erase_acc a2) ->
  (forall c, a_state a1 <> SMeta c) ->
  good_header (text_of h1) -> good_header (text_of h2) ->
  nameless (erase_acc (sstep a1 h1)) = nameless (erase_acc (sstep a2 h2)).
Proof.
  intros Ha Hm G1 G2. unfold erase_acc, nameless in Ha. inversion Ha as [[Hd He Hs]].
  pose proof (good_header_no_err _ G1) as E1. pose proof (good_header_no_err _ G2) as E2.
  unfold sstep. fold (text_of h1). fold (text_of h2).
  rewrite (good_header_not_blank _ G1), (good_header_not_blank _ G2).
  destruct G1 as [S1 _], G2 as [S2 _]. rewrite S1, S2.
  destruct (a_state a1) as [|c1|c1] eqn:A1; [| exfalso; eapply Hm; eauto |];
    destruct (a_state a2) as [|c2|c2]; cbn [erase_state nameless_state] in Hs; try discriminate.
  - unfold open_change. destruct (read_name (i_line h1)) as [n1 e1], (read_name (i_line h2)) as [n2 e2].
    simpl in E1, E2. subst e1 e2. unfold erase_acc, nameless. simpl. rewrite !app_nil_r, Hd, He. reflexivity.
  - assert (Hc : drop_name (erase_change c1) = drop_name (erase_change c2)) by congruence. unfold open_change.
    destruct (read_name (i_line h1)) as [n1 e1], (read_name (i_line h2)) as [n2 e2].
    simpl in E1, E2. subst e1 e2. unfold erase_acc, nameless. simpl.
    rewrite !app_nil_r, !map_app, Hd, He. simpl. rewrite Hc. reflexivity.
Qed.

Lemma sstep_nameless a1 a2 it1 it2 :
  nameless (erase_acc a1) = nameless (erase_acc a2) -> text_of it1 = text_of it2 ->
  nameless (erase_acc (sstep a1 it1)) = nameless (erase_acc (sstep a2 it2)).
Proof.
  intros Ha Ht. unfold erase_acc, nameless in Ha. inversion Ha as [[Hd He Hs]].
  unfold sstep. unfold text_of in Ht. rewrite Ht.
  assert (forall b1 b2, map drop_name (map erase_change (a_done b1)) = map drop_name (map erase_change (a_done b2)) ->
            map erase_err (a_errs b1) = map erase_err (a_errs b2) ->
            nameless (erase_acc (open_change b1 it1)) = nameless (erase_acc (open_change b2 it2))) as OC.
  { intros b1 b2 Hbd Hbe. unfold open_change.
    destruct (read_name_erased (i_line it1) (i_line it2) Ht) as [Hn Hr].
    destruct (read_name (i_line it1)) as [n1 e1], (read_name (i_line it2)) as [n2 e2]. simpl in *.
    unfold erase_acc, nameless. simpl. rewrite !map_app, Hbd, Hbe, Hr. reflexivity. }
  destruct (a_state a1) as [|c1|c1] eqn:S1, (a_state a2) as [|c2|c2] eqn:S2; cbn [erase_state nameless_state] in Hs; try discriminate.
  - destruct (is_blank (l_text (i_line it2))); [unfold erase_acc, nameless; rewrite Hd, He, S1, S2; reflexivity|].
    apply OC; assumption.
  - assert (Hc : drop_name (erase_change c1) = drop_name (erase_change c2)) by congruence.
    unfold drop_name, erase_change in Hc. simpl in Hc. inversion Hc.
    destruct (beq (l_text (i_line it2)) atat); unfold erase_acc, nameless; simpl; rewrite Hd, He;
      unfold drop_name, erase_change; simpl; rewrite ?map_app; simpl; congruence.
  - assert (Hc : drop_name (erase_change c1) = drop_name (erase_change c2)) by congruence. destruct (starts_with_at (l_text (i_line it2))).
    + apply OC; simpl; [|assumption]. rewrite !map_app. simpl. rewrite Hd, Hc. reflexivity.
    + unfold drop_name, erase_change in Hc. simpl in Hc. inversion Hc.
      unfold erase_acc, nameless; simpl; rewrite Hd, He;
        unfold drop_name, erase_change; simpl; rewrite ?map_app; simpl; congruence.
Qed.

Lemma fold_nameless its1 : forall its2 a1 a2,
  nameless (erase_acc a1) = nameless (erase_acc a2) -> map text_of its1 = map text_of its2 ->
  nameless (erase_acc (fold_left sstep its1 a1)) = nameless (erase_acc (fold_left sstep its2 a2)).
Proof.
  induction its1 as [|i1 its1 IH]; intros [|i2 its2] a1 a2 Ha Ht; simpl in *; try discriminate; [exact Ha|].
  inversion Ht. apply IH; [|assumption]. apply sstep_nameless; assumption.
Qed.

Definition nameless_result (r : list echange * list ekind) : list echange * list ekind :=
  (map drop_name (fst r), snd r).

Lemma sfinish_nameless e1 e2 a1 a2 :
  nameless (erase_acc a1) = nameless (erase_acc a2) ->
  nameless_result (erase_result (sfinish e1 a1)) = nameless_result (erase_result (sfinish e2 a2)).
Proof.
  intros Ha. unfold erase_acc, nameless in Ha. inversion Ha as [[Hd He Hs]].
  unfold sfinish, erase_result, nameless_result.
  destruct (a_state a1) as [|c1|c1], (a_state a2) as [|c2|c2]; cbn [erase_state nameless_state] in Hs; try discriminate; simpl.
  - rewrite Hd, He. reflexivity.
  - assert (Hc : drop_name (erase_change c1) = drop_name (erase_change c2)) by congruence.
    unfold drop_name, erase_change in Hc. simpl in Hc. inversion Hc.
    rewrite !map_app, Hd, He. simpl. reflexivity.
  - assert (Hc : drop_name (erase_change c1) = drop_name (erase_change c2)) by congruence. rewrite !map_app, Hd, He. simpl. rewrite Hc. reflexivity.
Qed.

Theorem change_name_is_only_a_name e1 e2 pre1 pre2 h1 h2 rest1 rest2 :
  map text_of pre1 = map text_of pre2 -> map text_of rest1 = map text_of rest2 ->
  (forall c, a_state (fold_left sstep pre1 a0) <> SMeta c) ->
  good_header (text_of h1) -> good_header (text_of h2) ->
  nameless_result (erase_result (read_changes e1 (pre1 ++ h1 :: rest1)))
  = nameless_result (erase_result (read_changes e2 (pre2 ++ h2 :: rest2))).
Proof.
  intros Hp Hr Hm G1 G2. unfold read_changes. apply sfinish_nameless.
  rewrite !fold_left_app. simpl. apply fold_nameless; [|exact Hr].
  apply sstep_header_nameless; try assumption.
  apply fold_nameless; [reflexivity|exact Hp].
Qed.

(* ------------------------------------------------------------------ splitPatch *)
Definition vapp (a b : version) : version :=
  {| v_contents := v_contents a ++ v_contents b;
     v_lines := v_lines a ++ map (fun p => (length (v_contents a) + fst p, snd p)) (v_lines b) |}.

Lemma add_line_contents v t o : v_contents (add_line v t o) = v_contents v ++ t ++ [NL].
Proof. reflexivity. Qed.

Lemma split_patch_step_contents acc l :
  v_contents (fst (split_patch_step acc l)) =
    v_contents (fst acc) ++
    match l_text l with
    | c :: rest => if N.eqb c MINUS then rest ++ [NL] else if N.eqb c PLUS then [] else l_text l ++ [NL]
    | [] => [NL]
    end /\
  v_contents (snd (split_patch_step acc l)) =
    v_contents (snd acc) ++
    match l_text l with
    | c :: rest => if N.eqb c MINUS then [] else if N.eqb c PLUS then rest ++ [NL] else l_text l ++ [NL]
    | [] => [NL]
    end.
Proof.
  destruct acc as [m p]. unfold split_patch_step. destruct (l_text l) as [|c rest]; simpl.
  - split; reflexivity.
  - destruct (N.eqb c MINUS); [simpl; rewrite app_nil_r; split; reflexivity|].
    destruct (N.eqb c PLUS); simpl; rewrite ?app_nil_r; split; reflexivity.
Qed.

Definition minus_part (t : bytes) : bytes :=
  match t with
  | c :: rest => if N.eqb c MINUS then rest ++ [NL] else if N.eqb c PLUS then [] else t ++ [NL]
  | [] => [NL]
  end.
Definition plus_part (t : bytes) : bytes :=
  match t with
  | c :: rest => if N.eqb c MINUS then [] else if N.eqb c PLUS then rest ++ [NL] else t ++ [NL]
  | [] => [NL]
  end.

Lemma split_patch_contents_from ls : forall acc,
  v_contents (fst (fold_left split_patch_step ls acc))
  = v_contents (fst acc) ++ flat_map (fun l => minus_part (l_text l)) ls /\
  v_contents (snd (fold_left split_patch_step ls acc))
  = v_contents (snd acc) ++ flat_map (fun l => plus_part (l_text l)) ls.
Proof.
  induction ls as [|l ls IH]; intros acc; simpl; [rewrite !app_nil_r; auto|].
  destruct (IH (split_patch_step acc l)) as [H1 H2]. rewrite H1, H2.
  destruct (split_patch_step_contents acc l) as [C1 C2]. rewrite C1, C2.
  unfold minus_part, plus_part. rewrite <- !app_assoc. auto.
Qed.

(* the two versions of the patch text: '-' lines only before, '+' lines only after,
   everything else in both, each line followed by a newline *)
Theorem split_patch_contents ls :
  v_contents (fst (split_patch ls)) = flat_map (fun l => minus_part (l_text l)) ls /\
  v_contents (snd (split_patch ls)) = flat_map (fun l => plus_part (l_text l)) ls.
Proof. unfold split_patch. apply (split_patch_contents_from ls (v0, v0)). Qed.

(* An unchanged line written once with a space prefix, or as an identical '-'/'+' pair:
   both versions get the same line, up to the one leading blank. *)
Theorem context_line_or_pair pre post t o1 o2 o3 :
  let ctx := {| l_off := o1; l_text := SP :: t |} in
  let mi := {| l_off := o2; l_text := MINUS :: t |} in
  let pl := {| l_off := o3; l_text := PLUS :: t |} in
  v_contents (fst (split_patch (pre ++ ctx :: post)))
  = flat_map (fun l => minus_part (l_text l)) pre ++ (SP :: t ++ [NL]) ++ flat_map (fun l => minus_part (l_text l)) post /\
  v_contents (fst (split_patch (pre ++ mi :: pl :: post)))
  = flat_map (fun l => minus_part (l_text l)) pre ++ (t ++ [NL]) ++ flat_map (fun l => minus_part (l_text l)) post /\
  v_contents (snd (split_patch (pre ++ ctx :: post)))
  = flat_map (fun l => plus_part (l_text l)) pre ++ (SP :: t ++ [NL]) ++ flat_map (fun l => plus_part (l_text l)) post /\
  v_contents (snd (split_patch (pre ++ mi :: pl :: post)))
  = flat_map (fun l => plus_part (l_text l)) pre ++ (t ++ [NL]) ++ flat_map (fun l => plus_part (l_text l)) post.
Proof.
  intros ctx mi pl.
  destruct (split_patch_contents (pre ++ ctx :: post)) as [A1 A2].
  destruct (split_patch_contents (pre ++ mi :: pl :: post)) as [B1 B2].
  rewrite A1, A2, B1, B2. rewrite !flat_map_app. simpl. rewrite ?app_nil_r. repeat split; reflexivity.
Qed.

(* ------------------------------------------------------------------ header diagnostics *)
(* a bad header line that does not look like "@...@" is reported at its first column *)
Theorem bad_header_at_column_one l o :
  In (EBadHeader o) (snd (read_name l)) -> o = l_off l.
Proof.
  unfold read_name. destruct (beq (l_text l) atat); [intros []|].
  destruct (l_text l) as [|c rest]; [intros [H|[]]; inversion H; reflexivity|].
  destruct (N.eqb c AT && Nat.ltb 2 (length (c :: rest)) && N.eqb (last (c :: rest) 0%N) AT).
  - destruct (validate_name (trim_space (removelast rest))); [intros [H|[]]; discriminate | intros []].
  - intros [H|[]]. inversion H. reflexivity.
Qed.

Lemma validate_name_aux_spec s : forall i j,
  validate_name_aux i s = Some j ->
  exists k, j = i + k /\ k < length s /\
    (let c := nth k s 0%N in
     (is_letter c || N.eqb c 95 || (negb (Nat.eqb (i + k) 0) && is_digit c)) = false) /\
    forall k', k' < k ->
      (let c := nth k' s 0%N in
       (is_letter c || N.eqb c 95 || (negb (Nat.eqb (i + k') 0) && is_digit c)) = true).
Proof.
  induction s as [|c s IH]; intros i j H; simpl in H; [discriminate|].
  destruct (is_letter c || N.eqb c 95 || (negb (Nat.eqb i 0) && is_digit c)) eqn:E.
  - apply IH in H as [k [-> [Hk [Hbad Hgood]]]]. exists (S k). repeat split.
    + lia.
    + simpl. lia.
    + simpl. replace (i + S k) with (S i + k) by lia. exact Hbad.
    + intros [|k'] Hk'; simpl.
      * rewrite Nat.add_0_r. exact E.
      * replace (i + S k') with (S i + k') by lia. apply Hgood. lia.
  - inversion H; subst. exists 0. repeat split.
    + lia.
    + simpl. lia.
    + simpl. rewrite Nat.add_0_r. exact E.
    + intros k' Hk'. lia.
Qed.

Lemma trim_left_split s : s = firstn (count_leading_space s) s ++ trim_left s.
Proof.
  induction s as [|c s IH]; simpl; [reflexivity|].
  destruct (is_space c); simpl; [f_equal; exact IH | reflexivity].
Qed.

Lemma is_blank_trim s : is_blank s = false -> trim_left s <> [].
Proof. unfold is_blank. destruct (trim_left s); [discriminate|intros _ H; discriminate]. Qed.

Lemma trim_right_prefix s : exists r, s = trim_right s ++ r.
Proof.
  unfold trim_right. exists (rev (firstn (count_leading_space (rev s)) (rev s))).
  rewrite <- rev_app_distr, <- trim_left_split, rev_involutive. reflexivity.
Qed.

(* An invalid change name is reported at the offending character: the byte of the header
   line at the reported offset is the first byte of the name that may not occur there. *)
Theorem bad_name_points_at_character l o :
  In (EBadName o) (snd (read_name l)) ->
  exists nm i,
    nm = trim_space (removelast (tl (l_text l))) /\
    validate_name nm = Some i /\
    l_off l <= o /\
    nth (o - l_off l) (l_text l) 0%N = nth i nm 0%N.
Proof.
  unfold read_name. destruct (beq (l_text l) atat); [intros []|].
  destruct (l_text l) as [|c rest] eqn:T; [intros [H|[]]; discriminate|].
  destruct (N.eqb c AT && Nat.ltb 2 (length (c :: rest)) && N.eqb (last (c :: rest) 0%N) AT);
    [|intros [H|[]]; discriminate].
  set (inner := removelast rest).
  destruct (validate_name (trim_space inner)) as [i|] eqn:V; [|intros []].
  intros [H|[]]. inversion H; subst o. clear H.
  exists (trim_space inner), i. simpl tl. fold inner. repeat split; [exact V|lia|].
  (* rest = inner ++ [last]; inner = spaces ++ trim_left inner; trim_left inner = trim_space inner ++ r *)
  assert (Hi : i < length (trim_space inner)).
  { apply validate_name_aux_spec in V as [k [-> [Hk _]]]. simpl. exact Hk. }
  destruct (is_blank inner) eqn:B.
  { (* blank inner: trimmed name is empty, validate_name [] = None: impossible *)
    unfold trim_space, trim_right, is_blank in *. destruct (trim_left inner); [|discriminate].
    simpl in V. discriminate. }
  assert (exists tail, rest = firstn (count_leading_space inner) inner ++ trim_space inner ++ tail) as [tail Hrest].
  { destruct (trim_right_prefix (trim_left inner)) as [r Hr].
    assert (exists z, rest = inner ++ z) as [z Hz].
    { unfold inner. destruct rest as [|x rest'] eqn:R; [exists []; reflexivity|].
      exists [last (x :: rest') 0%N]. apply app_removelast_last. discriminate. }
    exists (r ++ z). rewrite Hz at 1. rewrite (trim_left_split inner) at 1.
    unfold trim_space. rewrite Hr at 1. rewrite <- !app_assoc. reflexivity. }
  rewrite Hrest.
  assert (length (firstn (count_leading_space inner) inner) = count_leading_space inner) as Hl.
  { apply firstn_length_le. clear. induction inner as [|x s IH]; simpl; [lia|]. destruct (is_space x); simpl; lia. }
  replace (l_off l + S (count_leading_space inner) + i - l_off l) with (S (count_leading_space inner + i)) by lia.
  cbn [nth]. rewrite app_nth2 by lia. rewrite Hl.
  replace (count_leading_space inner + i - count_leading_space inner) with i by lia.
  apply app_nth1. exact Hi.
Qed.
