(* Facts about the astdiff model: every region a walk reports lies within the bounds of the
   tree it walks (or is empty, or starts at NoPos); comments attached to a list element that
   the edit script pairs as identical are outside every region the walk of the list reports. *)
From GP Require Import AstDiff.
From Coq Require Import Lia.
Local Open Scope Z_scope.

Section Bounded.
  Variables lo hi : Z.
  Hypothesis Hlo : nopos < lo.
  Hypothesis Hlh : lo <= hi.

  Definition okpos (x : Z) : Prop := x = nopos \/ (lo <= x /\ x <= hi).
  Definition inr (x : Z) : Prop := lo <= x /\ x <= hi.
  Definition okc (c : Z * Z) : Prop := inr (fst c) /\ inr (snd c).

  (* a node has a position and an end within the bounds *)
  Definition nodepos (i : ninfo) : Prop := n_isnode i = true -> inr (n_pos i) /\ inr (n_end i).

  (* positions of nodes and tokens and of the comments attached to nodes lie within the bounds
     (or are NoPos, unless they are those of a node); a list of nodes holds nodes only *)
  Fixpoint bounded (v : value) : Prop :=
    match v with
    | VRef _ i e => okpos (n_pos i) /\ okpos (n_end i) /\ nodepos i /\ Forall (Forall okc) (n_cmts i) /\ bounded e
    | VPos p => okpos p
    | VSlice _ en cs =>
        (fix all (l : list value) : Prop := match l with [] => True | c :: l' => bounded c /\ all l' end) cs
        /\ (en = true -> forallb is_node cs = true)
    | VStruct _ cs =>
        (fix all (l : list value) : Prop := match l with [] => True | c :: l' => bounded c /\ all l' end) cs
    | _ => True
    end.

  Fixpoint bounded_all (l : list value) : Prop := match l with [] => True | c :: l' => bounded c /\ bounded_all l' end.

  Lemma bounded_slice t en cs : bounded (VSlice t en cs) = (bounded_all cs /\ (en = true -> forallb is_node cs = true)).
  Proof. reflexivity. Qed.
  Lemma bounded_struct t cs : bounded (VStruct t cs) = bounded_all cs.
  Proof. reflexivity. Qed.

  (* the region a walk is charged with: when it starts at NoPos its end is NoPos or within the bounds *)
  Definition Inv (r : region) : Prop := okpos (fst r) /\ snd r <= hi /\ (fst r = nopos -> okpos (snd r)).
  Definition Good (r : region) : Prop := fst r = nopos \/ snd r <= fst r \/ (lo <= fst r /\ snd r <= hi).

  Lemma good_of r : okpos (fst r) -> snd r <= hi -> Good r.
  Proof. intros [H|H] E; [left; exact H|right; right; lia]. Qed.

  Lemma inv_good r : Inv r -> Good r.
  Proof. intros [H [E _]]. apply good_of; assumption. Qed.

  Lemma okpos_le x : okpos x -> x <= hi.
  Proof. intros [->|H]; lia. Qed.

  Lemma inr_okpos x : inr x -> okpos x.
  Proof. intros H; right; exact H. Qed.

  Lemma inr_not_nopos x : inr x -> x <> nopos.
  Proof. unfold inr. lia. Qed.

  Lemma okpos_vpos v : bounded v -> okpos (vpos v).
  Proof. destruct v; simpl; intros H; try (left; reflexivity). destruct H as [H _]. exact H. Qed.

  Lemma okpos_vend v : bounded v -> okpos (vend v).
  Proof. destruct v; simpl; intros H; try (left; reflexivity). destruct H as [_ [H _]]. exact H. Qed.

  Lemma node_inr v : bounded v -> is_node v = true -> inr (vpos v) /\ inr (vend v).
  Proof.
    destruct v; simpl; intros H E; try discriminate. destruct H as [_ [_ [H _]]]. exact (H E).
  Qed.

  Lemma bounded_cmts v : bounded v -> Forall (Forall okc) (n_cmts (info v)).
  Proof. destruct v; simpl; intros H; try constructor. destruct H as [_ [_ [_ [H _]]]]. exact H. Qed.

  Lemma comments_for_ok v : bounded v -> Forall okc (fst (comments_for v)) /\ Forall okc (snd (comments_for v)).
  Proof.
    intros H. apply bounded_cmts in H. unfold comments_for. cbn [fst snd].
    set (gs := filter _ _).
    assert (Forall (Forall okc) gs) as Hg.
    { unfold gs. apply Forall_forall. intros g Hin. apply filter_In in Hin as [Hin _].
      rewrite Forall_forall in H. auto. }
    clearbody gs. split.
    - induction Hg as [|g gs Hg Hgs IH]; simpl; [constructor|].
      apply Forall_app. split; [|exact IH]. destruct (cg_end g <=? vpos v); [exact Hg|constructor].
    - induction Hg as [|g gs Hg Hgs IH]; simpl; [constructor|].
      apply Forall_app. split; [|exact IH]. destruct (vend v <=? cg_pos g); [exact Hg|constructor].
  Qed.

  Lemma last_okc (l : list (Z * Z)) d : l <> [] -> Forall okc l -> okc (last l d).
  Proof.
    induction l as [|x l IH]; intros Hn Hf; [contradiction|]. inversion Hf; subst.
    destruct l as [|y l']; [simpl; assumption|]. change (last (x :: y :: l') d) with (last (y :: l') d).
    apply IH; [discriminate|assumption].
  Qed.

  Lemma max_ok a b : okpos a -> inr b -> okpos (Z.max a b).
  Proof. intros [->|Ha] Hb; right; unfold inr in *; lia. Qed.

  Lemma max_inr a b : inr a -> inr b -> inr (Z.max a b).
  Proof. unfold inr. lia. Qed.

  Lemma min_ok a b : okpos a -> inr b -> okpos (Z.min a b).
  Proof. intros [->|Ha] Hb; unfold inr in *; [left|right]; lia. Qed.

  Lemma min_inr a b : inr a -> inr b -> inr (Z.min a b).
  Proof. unfold inr. lia. Qed.

  (* the end of an enclosing node: NoPos (unknown) or not below the bounds *)
  Definition lowok (x : Z) : Prop := x = nopos \/ lo <= x.

  Lemma okpos_lowok x : okpos x -> lowok x.
  Proof. intros [H|H]; [left; exact H|right; lia]. Qed.

  (* endOf of a node *)
  Lemma end_of_inr nend r c : lowok nend -> Inv r -> inr (vend c) -> inr (end_of nend r c).
  Proof.
    intros Hn [Hr1 [Hr2 Hr3]] Hc. unfold end_of.
    assert (inr (if (valid nend && (nend <? vend c))%bool then nend else vend c)) as H1.
    { destruct (valid nend && (nend <? vend c))%bool eqn:E; [|exact Hc].
      apply andb_true_iff in E as [E1 E2]. apply Z.ltb_lt in E2. unfold valid in E1.
      apply negb_true_iff, Z.eqb_neq in E1. destruct Hn as [Hn|Hn]; [contradiction|]. unfold inr in *. lia. }
    set (e1 := if (valid nend && (nend <? vend c))%bool then nend else vend c) in *. clearbody e1.
    destruct ((fst r <? snd r) && (snd r <? e1))%bool eqn:E; [|exact H1].
    apply andb_true_iff in E as [E1 E2]. apply Z.ltb_lt in E1, E2.
    destruct Hr1 as [Hr1|Hr1].
    - destruct (Hr3 Hr1) as [E|E]; [lia|exact E].
    - unfold inr in *. lia.
  Qed.

  (* ---- walkStruct ---- *)
  Definition is_vpos (v : value) : Prop := match v with VPos _ => True | _ => False end.

  (* field by field: the region it is walked with *)
  Fixpoint finv (cs : list value) (ss es : list Z) : Prop :=
    match cs, ss, es with
    | c :: cs', s :: ss', e :: es' =>
        (okpos s /\ e <= hi /\ (is_vpos c \/ (s = nopos -> okpos e))) /\ finv cs' ss' es'
    | _, _, _ => True
    end.

  Section Struct.
  Variable eo : value -> Z.
  Hypothesis Heo : forall c, bounded c -> is_node c = true -> inr (eo c).

  Lemma fields_ok cs : forall le fend, bounded_all cs -> okpos le -> fend <= hi -> (le = nopos -> okpos fend) ->
    finv cs (starts_of eo cs le) (fst (ends_of eo cs (starts_of eo cs le) fend))
    /\ snd (ends_of eo cs (starts_of eo cs le) fend) <= hi
    /\ (le = nopos -> okpos (snd (ends_of eo cs (starts_of eo cs le) fend))).
  Proof.
    induction cs as [|c cs IH]; intros le fend Hb Hle Hf Hlf; [cbn; auto|].
    destruct Hb as [Hc Hcs]. cbn [starts_of].
    destruct (is_node c) eqn:En.
    - (* a node *)
      destruct (node_inr c Hc En) as [Hp He]. pose proof (Heo c Hc En) as Hec.
      set (le' := match snd (comments_for c) with [] => eo c | _ => Z.max (eo c) (snd (last (snd (comments_for c)) (nopos, nopos))) end).
      assert (inr le') as Hle'.
      { unfold le'. destruct (comments_for_ok c Hc) as [_ Ha].
        destruct (snd (comments_for c)) as [|a aft] eqn:E; [exact Hec|].
        apply max_inr; [exact Hec|].
        assert (okc (last (a :: aft) (nopos, nopos))) as [_ H2] by (apply last_okc; [discriminate|exact Ha]). exact H2. }
      destruct (IH le' fend Hcs (inr_okpos _ Hle') Hf ltac:(intros E; exfalso; exact (inr_not_nopos _ Hle' E))) as [I1 [I2 I3]].
      cbn [ends_of]. destruct (ends_of eo cs (starts_of eo cs le') fend) as [es np] eqn:Ee. cbn [fst snd] in *.
      rewrite En. cbn [finv]. repeat split.
      + apply inr_okpos; exact Hp.
      + destruct Hec; assumption.
      + right. intros _. apply inr_okpos; exact Hec.
      + exact I1.
      + destruct Hp; assumption.
      + intros _. apply inr_okpos; exact Hp.
    - (* not a node *)
      assert (forall s, okpos s -> (s = nopos -> is_vpos c \/ le = nopos) ->
                finv (c :: cs) (s :: starts_of eo cs le) (fst (ends_of eo (c :: cs) (s :: starts_of eo cs le) fend))
                /\ snd (ends_of eo (c :: cs) (s :: starts_of eo cs le) fend) <= hi
                /\ (s = nopos \/ le <> nopos \/ True -> True)) as Hgen.
      { intros s Hs Hsn.
        destruct (IH le fend Hcs Hle Hf Hlf) as [I1 [I2 I3]].
        cbn [ends_of]. destruct (ends_of eo cs (starts_of eo cs le) fend) as [es np] eqn:Ee. cbn [fst snd] in *.
        rewrite En. cbn [finv]. repeat split; try assumption.
        - destruct (Z.eq_dec s nopos) as [E|E].
          + destruct (Hsn E) as [V|V]; [left; exact V|right; intros _; exact (I3 V)].
          + right. intros E'. contradiction.
        - apply okpos_le; exact Hs. }
      assert (forall s, okpos s -> (s = nopos -> is_vpos c \/ le = nopos) -> (le = nopos -> okpos s) ->
                finv (c :: cs) (s :: starts_of eo cs le) (fst (ends_of eo (c :: cs) (s :: starts_of eo cs le) fend))
                /\ snd (ends_of eo (c :: cs) (s :: starts_of eo cs le) fend) <= hi
                /\ (le = nopos -> okpos (snd (ends_of eo (c :: cs) (s :: starts_of eo cs le) fend)))) as Hgen2.
      { intros s Hs Hsn Hls. destruct (Hgen s Hs Hsn) as [G1 [G2 _]]. split; [exact G1|]. split; [exact G2|].
        cbn [ends_of]. destruct (ends_of eo cs (starts_of eo cs le) fend) as [es np]. cbn [snd]. exact Hls. }
      destruct c as [t|p|t a|t i e|t en l|t l]; try (apply Hgen2; [exact Hle|intros E; right; exact E|intros _; exact Hle]).
      + (* VPos *)
        apply Hgen2.
        * simpl in Hc. destruct (valid p); [exact Hc|left; reflexivity].
        * intros _. left. exact I.
        * intros _. simpl in Hc. destruct (valid p); [exact Hc|left; reflexivity].
  Qed.
  End Struct.

  (* ---- walkSlice ---- *)
  Definition nodeb_opt (o : option value) : Prop := match o with Some v => bounded v /\ is_node v = true | None => True end.

  Lemma elem_region_inv r prev n next :
    Inv r -> nodeb_opt prev -> bounded n -> is_node n = true -> nodeb_opt next -> Inv (elem_region r prev n next).
  Proof.
    intros [Hp [He H3]] Hpv Hn Hnn Hnx. unfold elem_region.
    destruct (comments_for_ok n Hn) as [Hb Ha]. destruct (node_inr n Hn Hnn) as [Np Ne].
    set (p0 := match prev with None => fst r | Some pv => _ end).
    set (e0 := match next with None => snd r | Some nx => _ end).
    assert (okpos p0 /\ (p0 = nopos -> prev = None /\ fst r = nopos)) as [Hp0 Hp0n].
    { unfold p0. destruct prev as [pv|]; [|split; [exact Hp|intros E; split; [reflexivity|exact E]]].
      destruct Hpv as [Hpv Hpn]. destruct (node_inr pv Hpv Hpn) as [_ Pe].
      destruct (snd (comments_for pv)).
      - pose proof (min_inr _ _ Pe Np) as M. split; [apply inr_okpos; exact M|intros E; exfalso; exact (inr_not_nopos _ M E)].
      - split; [apply inr_okpos; exact Np|intros E; exfalso; exact (inr_not_nopos _ Np E)]. }
    assert (e0 <= hi /\ (next <> None \/ fst r = nopos -> okpos e0)) as [He0 He0n].
    { unfold e0. destruct next as [nx|].
      - destruct Hnx as [Hnx Hnn']. destruct (node_inr nx Hnx Hnn') as [Xp _].
        destruct (comments_for_ok nx Hnx) as [Hbx _].
        destruct (fst (comments_for nx)) as [|b0 bs].
        + split; [destruct Xp; assumption|intros _; apply inr_okpos; exact Xp].
        + inversion Hbx as [|? ? [Hb1 _] _]; subst. pose proof (min_inr _ _ Ne Hb1) as M.
          split; [destruct M; assumption|intros _; apply inr_okpos; exact M].
      - split; [exact He|]. intros [E|E]; [contradiction|exact (H3 E)]. }
    clearbody p0 e0.
    destruct (comments_for n) as [bef aft]. cbn [fst snd] in *.
    assert (forall e, e = match aft with [] => e0 | c :: _ => Z.min e0 (fst c) end -> e <= hi /\ (okpos e0 -> okpos e)) as Hend.
    { intros e ->. destruct aft as [|a aft']; [split; [exact He0|auto]|].
      inversion Ha as [|? ? [Ha1 _] _]; subst. split; [lia|intros O; apply min_ok; assumption]. }
    destruct (Hend _ eq_refl) as [E1 E2].
    split; cbn [fst snd]; [|split; [exact E1|]].
    - destruct bef as [|b bef']; [exact Hp0|]. apply max_ok; [exact Hp0|].
      assert (okc (last (b :: bef') (nopos, nopos))) as [_ H2] by (apply last_okc; [discriminate|exact Hb]). exact H2.
    - intros Ep. apply E2. apply He0n. right.
      destruct bef as [|b bef'].
      + destruct (Hp0n Ep) as [_ F]. exact F.
      + exfalso. assert (okc (last (b :: bef') (nopos, nopos))) as [_ H2] by (apply last_okc; [discriminate|exact Hb]).
        unfold inr in H2. destruct Hp0 as [Q|Q]; lia.
  Qed.

  Fixpoint nodes_all (l : list value) : Prop := match l with [] => True | c :: l' => (bounded c /\ is_node c = true) /\ nodes_all l' end.

  Lemma nodes_all_of cs : bounded_all cs -> forallb is_node cs = true -> nodes_all cs.
  Proof.
    induction cs as [|c cs IH]; intros Hb Hn; [exact I|]. destruct Hb as [Hc Hcs]. cbn [forallb] in Hn.
    apply andb_true_iff in Hn as [N1 N2]. split; [split; assumption|apply IH; assumption].
  Qed.

  Lemma elem_regions_inv cs : forall r prev, Inv r -> nodeb_opt prev -> nodes_all cs ->
    Forall Inv (elem_regions r prev cs).
  Proof.
    induction cs as [|n cs IH]; intros r prev Hr Hp Hb; cbn [elem_regions]; [constructor|].
    destruct Hb as [[Hn Hnn] Hcs]. constructor.
    - apply elem_region_inv; try assumption. destruct cs as [|nx cs']; [exact I|]. destruct Hcs as [H _]. exact H.
    - apply IH; [exact Hr|split; assumption|exact Hcs].
  Qed.

  Variable script : list value -> list value -> list edit.

  Definition walk_ok (k : nat) : Prop :=
    forall nend r from to w, bounded from -> Inv r -> lowok nend -> walk script k nend r from to = Some w -> Forall Good (w_log w).

  Lemma good_single r : Inv r -> Forall Good [r].
  Proof. intros H. constructor; [apply inv_good; exact H|constructor]. Qed.

  (* the walk of a position field reports its region or nothing *)
  Lemma walk_vpos k nend r p to w : walk script k nend r (VPos p) to = Some w -> w_log w = [] \/ w_log w = [r].
  Proof.
    destruct k as [|k]; [discriminate|]. cbn [walk]. intros H.
    destruct (negb (N.eqb (vtype (VPos p)) (vtype to))); [inversion H; subst; right; reflexivity|].
    destruct (N.eqb (vtype (VPos p)) T_object || N.eqb (vtype (VPos p)) T_cgroup)%bool; [inversion H; subst; left; reflexivity|].
    destruct to; try (inversion H; subst; right; reflexivity).
    destruct (Bool.eqb (valid p) (valid p0)); inversion H; subst; [left|right]; reflexivity.
  Qed.

  Lemma walk_bounded_n : forall k, walk_ok k.
  Proof.
    induction k as [|k IH]; intros nend r from to w Hb Hr Hne H; [discriminate|].
    cbn [walk] in H.
    destruct (negb (N.eqb (vtype from) (vtype to))); [inversion H; subst; apply good_single; exact Hr|].
    destruct (N.eqb (vtype from) T_object || N.eqb (vtype from) T_cgroup)%bool; [inversion H; subst; constructor|].
    destruct from as [tf|pf|tf af|tf inf ef|tf enf xs|tf xs].
    - (* VNil *) destruct to; inversion H; subst; constructor.
    - (* VPos *)
      destruct to; try (inversion H; subst; apply good_single; exact Hr).
      destruct (Bool.eqb (valid pf) (valid p)); inversion H; subst; [constructor|apply good_single; exact Hr].
    - (* VAtom *)
      destruct to; try (inversion H; subst; apply good_single; exact Hr).
      destruct (N.eqb af a); inversion H; subst; [constructor|apply good_single; exact Hr].
    - (* VRef *)
      destruct to as [tt|pt|tt at_|tt it et|tt ent ys|tt ys]; try (inversion H; subst; apply good_single; exact Hr).
      match type of H with context [walk script k ?ne r ef et] => destruct (walk script k ne r ef et) as [w'|] eqn:E; [|discriminate]; inversion H; subst; cbn [w_log];
        assert (lowok ne) as Hne' by (cbn [info]; destruct (n_isnode inf) eqn:En;
           [apply okpos_lowok, inr_okpos, end_of_inr; [exact Hne|exact Hr|apply (node_inr (VRef tf inf ef) Hb En)]|exact Hne]);
        simpl in Hb; destruct Hb as [_ [_ [_ [_ Hb]]]]; exact (IH ne r ef et w' Hb Hr Hne' E) end.
    - (* VSlice *)
      destruct to as [tt|pt|tt at_|tt it et|tt ent ys|tt ys];
        try (destruct enf; inversion H; subst; apply good_single; exact Hr).
      rewrite bounded_slice in Hb. destruct Hb as [Hb Hnodes].
      destruct enf.
      + (* node slice *)
        pose proof (nodes_all_of xs Hb (Hnodes eq_refl)) as Hna.
        pose proof (elem_regions_inv xs r None Hr I Hna) as Hregs.
        set (regs := elem_regions r None xs) in *. clearbody regs.
        set (es := script xs ys) in *. clearbody es.
        match type of H with context [ (fix go (es : list edit) (xs ys : list value) (regs : list region) {struct es} := _) es xs ys regs ] =>
          set (go := (fix go (es : list edit) (xs ys : list value) (regs : list region) {struct es} : option (bool * list value * list region) := _)) in H end.
        assert (forall es xs ys regs eq tos lg, bounded_all xs -> Forall Inv regs ->
                  go es xs ys regs = Some (eq, tos, lg) -> Forall Good lg) as Hgo.
        { clear H Hb Hregs Hna Hnodes xs ys regs es. induction es as [|e es IHes]; intros xs ys regs eq tos lg Hbx Hrg Hg.
          - simpl in Hg. inversion Hg; subst. constructor.
          - destruct e; simpl in Hg.
            + destruct xs as [|x xs']; [discriminate|]. destruct ys as [|y ys']; [discriminate|]. destruct regs as [|rg regs']; [discriminate|].
              destruct (go es xs' ys' regs') as [[[eq' tos'] lg']|] eqn:E; [|discriminate]. inversion Hg; subst.
              destruct Hbx as [_ Hbx]. inversion Hrg; subst. eapply IHes; eauto.
            + destruct xs as [|x xs']; [discriminate|]. destruct regs as [|rg regs']; [discriminate|].
              destruct (go es xs' ys regs') as [[[eq' tos'] lg']|] eqn:E; [|discriminate]. inversion Hg; subst.
              destruct Hbx as [_ Hbx]. inversion Hrg as [|? ? Hrg1 Hrg2]; subst.
              constructor; [apply inv_good; exact Hrg1|]. eapply IHes; eauto.
            + destruct ys as [|y ys']; [discriminate|].
              destruct (go es xs ys' regs) as [[[eq' tos'] lg']|] eqn:E; [|discriminate]. inversion Hg; subst.
              eapply IHes; eauto.
            + destruct xs as [|x xs']; [discriminate|]. destruct ys as [|y ys']; [discriminate|]. destruct regs as [|rg regs']; [discriminate|].
              destruct (walk script k nend rg x y) as [w'|] eqn:Ew; [|discriminate].
              destruct (go es xs' ys' regs') as [[[eq' tos'] lg']|] eqn:E; [|discriminate]. inversion Hg; subst.
              destruct Hbx as [Hx Hbx]. inversion Hrg as [|? ? Hrg1 Hrg2]; subst.
              apply Forall_app. split; [exact (IH nend rg x y w' Hx Hrg1 Hne Ew)|]. eapply IHes; eauto. }
        destruct (go es xs ys regs) as [[[eq tos] lg]|] eqn:E; [|discriminate]. inversion H; subst. cbn [w_log].
        eapply Hgo; eauto.
      + (* plain slice *)
        destruct (negb (Nat.eqb (length xs) (length ys))); [inversion H; subst; apply good_single; exact Hr|].
        match type of H with context [ (fix go (xs ys : list value) {struct xs} := _) xs ys ] =>
          set (go := (fix go (xs ys : list value) {struct xs} : option (bool * list value * list region) := _)) in H end.
        assert (forall xs ys eq tos lg, bounded_all xs -> go xs ys = Some (eq, tos, lg) -> Forall Good lg) as Hgo.
        { clear H Hb Hnodes xs ys. induction xs as [|x xs IHxs]; intros ys eq tos lg Hbx Hg.
          - simpl in Hg. inversion Hg; subst. constructor.
          - destruct ys as [|y ys']; simpl in Hg; [inversion Hg; subst; constructor|].
            destruct (walk script k nend r x y) as [w'|] eqn:Ew; [|discriminate].
            destruct (go xs ys') as [[[eq' tos'] lg']|] eqn:E; [|discriminate]. inversion Hg; subst.
            destruct Hbx as [Hx Hbx]. apply Forall_app. split; [exact (IH nend r x y w' Hx Hr Hne Ew)|]. eapply IHxs; eauto. }
        destruct (go xs ys) as [[[eq tos] lg]|] eqn:E; [|discriminate]. inversion H; subst. cbn [w_log].
        eapply Hgo; eauto.
    - (* VStruct *)
      destruct to as [tt|pt|tt at_|tt it et|tt ent ys|tt ys]; try (inversion H; subst; apply good_single; exact Hr).
      rewrite bounded_struct in Hb. pose proof Hr as [Hr1 [Hr2 Hr3]].
      assert (forall c0, bounded c0 -> is_node c0 = true -> inr (end_of nend r c0)) as Heo
        by (intros c0 Hc0 Hn0; apply end_of_inr; [exact Hne|exact Hr|apply (node_inr c0 Hc0 Hn0)]).
      pose proof (fields_ok (end_of nend r) Heo xs (fst r) (snd r) Hb Hr1 Hr2 Hr3) as [Hfi _].
      revert H Hfi. generalize (starts_of (end_of nend r) xs (fst r)) as ss. intros ss.
      generalize (fst (ends_of (end_of nend r) xs ss (snd r))) as es. intros es H Hfi.
      match type of H with context [ (fix go (xs ys : list value) (ss es : list Z) {struct xs} := _) xs ys ss es ] =>
        set (go := (fix go (xs ys : list value) (ss es : list Z) {struct xs} : option (bool * list value * list region) := _)) in H end.
      assert (forall xs ys ss es eq tos lg, bounded_all xs -> finv xs ss es ->
                go xs ys ss es = Some (eq, tos, lg) -> Forall Good lg) as Hgo.
      { clear H Hb Hfi xs ys ss es. induction xs as [|x xs IHxs]; intros ys ss es eq tos lg Hbx Hfi Hg.
        - simpl in Hg. inversion Hg; subst. constructor.
        - destruct ys as [|y ys']; simpl in Hg; [inversion Hg; subst; constructor|].
          destruct ss as [|s ss']; [inversion Hg; subst; constructor|].
          destruct es as [|e es']; [inversion Hg; subst; constructor|].
          destruct (walk script k nend (s, e) x y) as [w'|] eqn:Ew; [|discriminate].
          destruct (go xs ys' ss' es') as [[[eq' tos'] lg']|] eqn:E; [|discriminate]. inversion Hg; subst.
          destruct Hbx as [Hx Hbx]. cbn [finv] in Hfi. destruct Hfi as [[F1 [F2 F3]] Hfi].
          apply Forall_app. split; [|exact (IHxs ys' ss' es' eq' tos' lg' Hbx Hfi E)].
          destruct F3 as [F3|F3].
          + destruct x; try contradiction. destruct (walk_vpos _ _ _ _ _ _ Ew) as [L|L]; rewrite L; [constructor|].
            constructor; [apply good_of; assumption|constructor].
          + apply (IH nend (s, e) x y w' Hx); [split; [exact F1|split; [exact F2|exact F3]]|exact Hne|exact Ew]. }
      destruct (go xs ys ss es) as [[[eq tos] lg]|] eqn:E; [|discriminate]. inversion H; subst. cbn [w_log].
      exact (Hgo xs ys ss es eq tos lg Hb Hfi E).
  Qed.

  Theorem walk_bounded k nend r from to w :
    bounded from -> Inv r -> lowok nend -> walk script k nend r from to = Some w -> Forall Good (w_log w).
  Proof. apply walk_bounded_n. Qed.

  (* the comments attached to the walked node itself (its doc and trailing comments, which lie
     outside its extent) play no part: they are looked at by the walk of the list it is in *)
  Fixpoint bounded_root (v : value) : Prop :=
    match v with
    | VRef _ i e => okpos (n_pos i) /\ okpos (n_end i) /\ nodepos i /\ bounded_root e
    | _ => bounded v
    end.

  Theorem walk_bounded_root : forall k nend r from to w,
    bounded_root from -> Inv r -> lowok nend -> walk script k nend r from to = Some w -> Forall Good (w_log w).
  Proof.
    induction k as [|k IH]; intros nend r from to w Hb Hr Hne H; [discriminate|].
    destruct from as [tf|pf|tf af|tf inf ef|tf enf xs|tf xs];
      try (eapply walk_bounded; [exact Hb|exact Hr|exact Hne|exact H]).
    cbn [walk] in H.
    destruct (negb (N.eqb (vtype (VRef tf inf ef)) (vtype to))); [inversion H; subst; apply good_single; exact Hr|].
    destruct (N.eqb (vtype (VRef tf inf ef)) T_object || N.eqb (vtype (VRef tf inf ef)) T_cgroup)%bool; [inversion H; subst; constructor|].
    destruct to as [tt|pt|tt at_|tt it et|tt ent ys|tt ys]; try (inversion H; subst; apply good_single; exact Hr).
    match type of H with context [walk script k ?ne r ef et] => destruct (walk script k ne r ef et) as [w'|] eqn:E; [|discriminate]; inversion H; subst; cbn [w_log];
      assert (lowok ne) as Hne' by (cbn [info]; destruct (n_isnode inf) eqn:En;
         [apply okpos_lowok, inr_okpos, end_of_inr; [exact Hne|exact Hr|simpl in Hb; destruct Hb as [_ [_ [Hb _]]]; exact (proj2 (Hb En))]|exact Hne]);
      simpl in Hb; destruct Hb as [_ [_ [_ Hb]]]; exact (IH ne r ef et w' Hb Hr Hne' E) end.
  Qed.
End Bounded.

(* ================================================================== elements paired as identical *)
Definition node_ok (x : value) : Prop := nopos < vpos x /\ vpos x <= vend x.

Definition prev_of (prev : option value) (xs : list value) (i : nat) : option value :=
  match i with O => prev | S i' => nth_error xs i' end.

Lemma nth_elem_regions r : forall xs prev i x,
  nth_error xs i = Some x ->
  nth_error (elem_regions r prev xs) i = Some (elem_region r (prev_of prev xs i) x (nth_error xs (S i))).
Proof.
  induction xs as [|a xs IH]; intros prev i x H; [destruct i; discriminate|].
  destruct i as [|i]; simpl in H.
  - inversion H; subst. cbn [elem_regions nth_error prev_of]. destruct xs; reflexivity.
  - cbn [elem_regions]. change (nth_error (?a :: ?l) (S i)) with (nth_error l i).
    rewrite (IH (Some a) i x H). f_equal. f_equal.
    destruct i; reflexivity.
Qed.

Section Slice.
  Variable script : list value -> list value -> list edit.
  Variable c : Z * Z.                      (* the comment *)
  Hypothesis Hc : fst c < snd c.

  (* the region starts at NoPos (such calls are dropped by the changelog) or holds no position of the comment *)
  Definition not_inside (r : region) : Prop :=
    fst r = nopos \/ forall q, fst c <= q < snd c -> ~ (fst r <= q < snd r).

  (* the element and its region keep clear of the comment *)
  Definition Excl (nend : Z) (x : value) (rg : region) : Prop :=
    let lo := Z.min (fst rg) (vpos x) in
    let hi := Z.max (snd rg) (vend x) in
    nopos < lo /\ lo <= hi /\ bounded_root lo hi x /\ okpos lo hi (fst rg) /\ (snd c <= lo \/ hi <= fst c) /\
    lowok lo nend.

  Lemma good_not_inside lo hi r : Good lo hi r -> (snd c <= lo \/ hi <= fst c) -> not_inside r.
  Proof.
    intros [G|[G|G]] Hx; [left; exact G|right; intros q Hq; lia|right; intros q Hq; lia].
  Qed.

  Fixpoint posok (nend : Z) (es : list edit) (xs : list value) (regs : list region) : Prop :=
    match es with
    | [] => True
    | Identity :: es' => match xs, regs with _ :: xs', _ :: regs' => posok nend es' xs' regs' | _, _ => True end
    | UniqueY :: es' => posok nend es' xs regs
    | _ :: es' => match xs, regs with x :: xs', rg :: regs' => Excl nend x rg /\ posok nend es' xs' regs' | _, _ => True end
    end.

  Lemma posok_from nend : forall es xs regs,
    (forall i x rg e, nth_error xs i = Some x -> nth_error regs i = Some rg ->
                      nth_error (xedits es) i = Some e -> e <> Identity -> Excl nend x rg) ->
    posok nend es xs regs.
  Proof.
    induction es as [|e es IH]; intros xs regs HE; [exact I|].
    destruct e; cbn [posok].
    - (* Identity *)
      destruct xs as [|x xs']; [exact I|]. destruct regs as [|rg regs']; [exact I|].
      apply IH. intros i x0 rg0 e0 H1 H2 H3 H4. exact (HE (S i) x0 rg0 e0 H1 H2 H3 H4).
    - (* UniqueX *)
      destruct xs as [|x xs']; [exact I|]. destruct regs as [|rg regs']; [exact I|]. split.
      + apply (HE O x rg UniqueX eq_refl eq_refl eq_refl). discriminate.
      + apply IH. intros i x0 rg0 e0 H1 H2 H3 H4. exact (HE (S i) x0 rg0 e0 H1 H2 H3 H4).
    - (* UniqueY *)
      apply IH. exact HE.
    - (* Modified *)
      destruct xs as [|x xs']; [exact I|]. destruct regs as [|rg regs']; [exact I|]. split.
      + apply (HE O x rg Modified eq_refl eq_refl eq_refl). discriminate.
      + apply IH. intros i x0 rg0 e0 H1 H2 H3 H4. exact (HE (S i) x0 rg0 e0 H1 H2 H3 H4).
  Qed.

  (* what the walk of a list of nodes reports *)
  Theorem slice_log_not_inside k nend r t xs t' en ys w :
    walk script (S k) nend r (VSlice t true xs) (VSlice t' en ys) = Some w ->
    N.eqb t t' = true -> N.eqb t T_object = false -> N.eqb t T_cgroup = false ->
    posok nend (script xs ys) xs (elem_regions r None xs) ->
    Forall not_inside (w_log w).
  Proof.
    intros H Et Eo Ec Hp. cbn [walk vtype] in H. rewrite Et, Eo, Ec in H. cbn [negb orb] in H.
    set (regs := elem_regions r None xs) in *. clearbody regs.
    set (es := script xs ys) in *. clearbody es.
    match type of H with context [ (fix go (es : list edit) (xs ys : list value) (regs : list region) {struct es} := _) es xs ys regs ] =>
      set (go := (fix go (es : list edit) (xs ys : list value) (regs : list region) {struct es} : option (bool * list value * list region) := _)) in H end.
    assert (forall es xs ys regs eq tos lg, posok nend es xs regs ->
              go es xs ys regs = Some (eq, tos, lg) -> Forall not_inside lg) as Hgo.
    { clear H Hp xs ys regs es. induction es as [|e es IHes]; intros xs ys regs eq tos lg Hp Hg.
      - simpl in Hg. inversion Hg; subst. constructor.
      - destruct e; simpl in Hg; cbn [posok] in Hp.
        + destruct xs as [|x xs']; [discriminate|]. destruct ys as [|y ys']; [discriminate|]. destruct regs as [|rg regs']; [discriminate|].
          destruct (go es xs' ys' regs') as [[[eq' tos'] lg']|] eqn:E; [|discriminate]. inversion Hg; subst. eapply IHes; eauto.
        + destruct xs as [|x xs']; [discriminate|]. destruct regs as [|rg regs']; [discriminate|].
          destruct (go es xs' ys regs') as [[[eq' tos'] lg']|] eqn:E; [|discriminate]. inversion Hg; subst.
          destruct Hp as [[Hlo [Hlh [Hb [Hok [Hx Hlow]]]]] Hp]. constructor; [|eapply IHes; eauto].
          eapply good_not_inside; [|exact Hx]. unfold Good. destruct Hok as [E0|E0]; [left; exact E0|]. right. right. lia.
        + destruct ys as [|y ys']; [discriminate|].
          destruct (go es xs ys' regs) as [[[eq' tos'] lg']|] eqn:E; [|discriminate]. inversion Hg; subst. eapply IHes; eauto.
        + destruct xs as [|x xs']; [discriminate|]. destruct ys as [|y ys']; [discriminate|]. destruct regs as [|rg regs']; [discriminate|].
          destruct (walk script k nend rg x y) as [w'|] eqn:Ew; [|discriminate].
          destruct (go es xs' ys' regs') as [[[eq' tos'] lg']|] eqn:E; [|discriminate]. inversion Hg; subst.
          destruct Hp as [[Hlo [Hlh [Hb [Hok [Hx Hlow]]]]] Hp]. apply Forall_app. split; [|eapply IHes; eauto].
          assert (Forall (Good (Z.min (fst rg) (vpos x)) (Z.max (snd rg) (vend x))) (w_log w')) as HG.
          { eapply walk_bounded_root; [exact Hlo|exact Hlh|exact Hb| |exact Hlow|exact Ew].
            split; [exact Hok|]. cbn [fst snd]. split; [lia|]. intros E0. exfalso. lia. }
          eapply Forall_impl; [|exact HG]. intros a Ha. eapply good_not_inside; [exact Ha|exact Hx]. }
    destruct (go es xs ys regs) as [[[eq tos] lg]|] eqn:E; [|discriminate]. inversion H; subst. cbn [w_log].
    eapply Hgo; eauto.
  Qed.
End Slice.

(* ================================================================== ordered lists of nodes *)
Fixpoint ordered (xs : list value) : Prop :=
  match xs with
  | a :: ((b :: _) as tl) => vend a <= vpos b /\ ordered tl
  | _ => True
  end.

Lemma ordered_head a l : ordered (a :: l) -> Forall node_ok (a :: l) -> forall b, In b l -> vend a <= vpos b.
Proof.
  revert a. induction l as [|b l IH]; intros a Ho Hn b' Hin; [contradiction|].
  destruct Ho as [H1 H2]. inversion Hn as [|? ? Ha Hn']; subst. destruct Hin as [<-|Hin]; [exact H1|].
  inversion Hn' as [|? ? Hb _]; subst. specialize (IH b H2 Hn' b' Hin). unfold node_ok in Hb. lia.
Qed.

Lemma ordered_tail a l : ordered (a :: l) -> ordered l.
Proof. destruct l; [intros; exact I|]. intros [_ H]; exact H. Qed.

Lemma ord_lt : forall xs i k a b, ordered xs -> Forall node_ok xs -> (i < k)%nat ->
  nth_error xs i = Some a -> nth_error xs k = Some b -> vend a <= vpos b.
Proof.
  induction xs as [|x xs IH]; intros i k a b Ho Hn Hik Ha Hb; [destruct i; discriminate|].
  destruct k as [|k]; [lia|]. simpl in Hb. destruct i as [|i]; simpl in Ha.
  - inversion Ha; subst. eapply ordered_head; eauto. eapply nth_error_In; eauto.
  - inversion Hn as [|? ? Hn1 Hn2]; subst. apply (IH i k a b); [eapply ordered_tail; exact Ho|exact Hn2|lia|exact Ha|exact Hb].
Qed.

Lemma nth_node_ok xs i a : Forall node_ok xs -> nth_error xs i = Some a -> node_ok a.
Proof. intros H E. rewrite Forall_forall in H. apply H. eapply nth_error_In; eauto. Qed.

Lemma ord_le_pos xs i k a b : ordered xs -> Forall node_ok xs -> (i <= k)%nat ->
  nth_error xs i = Some a -> nth_error xs k = Some b -> vpos a <= vpos b.
Proof.
  intros Ho Hn Hik Ha Hb. destruct (Nat.eq_dec i k) as [->|Hne]; [rewrite Ha in Hb; inversion Hb; lia|].
  pose proof (ord_lt xs i k a b Ho Hn ltac:(lia) Ha Hb). destruct (nth_node_ok _ _ _ Hn Ha). lia.
Qed.

Lemma ord_le_end xs i k a b : ordered xs -> Forall node_ok xs -> (i <= k)%nat ->
  nth_error xs i = Some a -> nth_error xs k = Some b -> vend a <= vend b.
Proof.
  intros Ho Hn Hik Ha Hb. destruct (Nat.eq_dec i k) as [->|Hne]; [rewrite Ha in Hb; inversion Hb; lia|].
  pose proof (ord_lt xs i k a b Ho Hn ltac:(lia) Ha Hb). destruct (nth_node_ok _ _ _ Hn Hb). lia.
Qed.

(* ---- monotonicity of the bounds ---- *)
Lemma okpos_mono lo hi lo' hi' x : lo' <= lo -> hi <= hi' -> okpos lo hi x -> okpos lo' hi' x.
Proof. intros H1 H2 [->|H]; [left; reflexivity|right; lia]. Qed.

Lemma okc_mono lo hi lo' hi' x : lo' <= lo -> hi <= hi' -> okc lo hi x -> okc lo' hi' x.
Proof. unfold okc, inr. intros H1 H2 H. lia. Qed.

Lemma nodepos_mono lo hi lo' hi' i : lo' <= lo -> hi <= hi' -> nodepos lo hi i -> nodepos lo' hi' i.
Proof. unfold nodepos, inr. intros H1 H2 H E. specialize (H E). lia. Qed.

Lemma bounded_mono lo hi lo' hi' : lo' <= lo -> hi <= hi' -> forall v, bounded lo hi v -> bounded lo' hi' v.
Proof.
  intros H1 H2. fix IH 1. intros v. destruct v as [t|p|t a|t i e|t en cs|t cs]; cbn [bounded]; intros H.
  - exact I.
  - eapply okpos_mono; eauto.
  - exact I.
  - destruct H as [A [B [C [D E]]]]. split; [eapply okpos_mono; eauto|]. split; [eapply okpos_mono; eauto|].
    split; [eapply nodepos_mono; eauto|]. split.
    + eapply Forall_impl; [|exact D]. intros g Hg. eapply Forall_impl; [|exact Hg]. intros x. apply okc_mono; assumption.
    + apply IH; exact E.
  - destruct H as [H Hn]. split; [|exact Hn]. clear Hn.
    induction cs as [|c0 cs IHcs]; [exact I|]. destruct H as [A B]. split; [apply IH; exact A|apply IHcs; exact B].
  - induction cs as [|c0 cs IHcs]; [exact I|]. destruct H as [A B]. split; [apply IH; exact A|apply IHcs; exact B].
Qed.

Lemma bounded_root_mono lo hi lo' hi' : lo' <= lo -> hi <= hi' -> forall v, bounded_root lo hi v -> bounded_root lo' hi' v.
Proof.
  intros H1 H2. induction v as [t|p|t a|t i e IH|t en cs|t cs]; cbn [bounded_root]; intros H;
    try (eapply bounded_mono; [exact H1|exact H2|exact H]).
  destruct H as [A [B [C D]]]. split; [eapply okpos_mono; eauto|]. split; [eapply okpos_mono; eauto|].
  split; [eapply nodepos_mono; eauto|]. apply IH; exact D.
Qed.

(* ---- the region of a list element ---- *)
Definition p0_of (r : region) (prev : option value) (n : value) : Z :=
  match prev with
  | None => fst r
  | Some pv => match snd (comments_for pv) with [] => Z.min (vend pv) (vpos n) | _ => vpos n end
  end.

Definition e0_of (r : region) (n : value) (next : option value) : Z :=
  match next with
  | None => snd r
  | Some nx => match fst (comments_for nx) with [] => vpos nx | b :: _ => Z.min (vend n) (fst b) end
  end.

Lemma last_app_ne {A} (a b : list A) d : b <> [] -> last (a ++ b) d = last b d.
Proof.
  intros Hb. induction a as [|x a IH]; [reflexivity|]. simpl. destruct (a ++ b) eqn:E; [|exact IH].
  apply app_eq_nil in E as [_ E]. contradiction.
Qed.

Lemma last_indep {A} (l : list A) d d' : l <> [] -> last l d = last l d'.
Proof. induction l as [|x l IH]; intros H; [contradiction|]. destruct l; [reflexivity|]. simpl in *. apply IH. discriminate. Qed.

Lemma last_before n : forall d, fst (comments_for n) <> [] -> snd (last (fst (comments_for n)) d) <= vpos n.
Proof.
  intros d. unfold comments_for. cbn [fst]. set (gs := filter _ _).
  assert (Forall (fun g => g <> []) gs) as Hne.
  { apply Forall_forall. intros g Hg. apply filter_In in Hg as [_ Hg]. destruct g; [discriminate|discriminate]. }
  clearbody gs. induction Hne as [|g gs Hg Hgs IH]; [intros H; contradiction|]. cbn [flat_map]. intros Hn.
  destruct (flat_map (fun g0 => if cg_end g0 <=? vpos n then g0 else []) gs) as [|y rest] eqn:E.
  - rewrite app_nil_r in *. destruct (Z.leb_spec (cg_end g) (vpos n)) as [L|L]; [|contradiction].
    unfold cg_end in L. rewrite (last_indep g d (nopos, nopos) Hg). exact L.
  - rewrite last_app_ne by discriminate. apply IH. discriminate.
Qed.

Lemma er_fst r prev n next : p0_of r prev n <= vpos n ->
  p0_of r prev n <= fst (elem_region r prev n next) /\ fst (elem_region r prev n next) <= vpos n.
Proof.
  intros Hp. unfold elem_region. fold (p0_of r prev n). fold (e0_of r n next).
  pose proof (last_before n (nopos, nopos)) as LB.
  destruct (comments_for n) as [bef aft]. cbn [fst snd] in *.
  destruct bef as [|b bef']; [lia|]. specialize (LB ltac:(discriminate)). lia.
Qed.

Lemma er_snd r prev n next : snd (elem_region r prev n next) <= e0_of r n next.
Proof.
  unfold elem_region. fold (p0_of r prev n). fold (e0_of r n next).
  destruct (comments_for n) as [bef aft]. cbn [fst snd]. destruct aft as [|a aft']; lia.
Qed.

(* ================================================================== the theorem *)
Section Identity.
  Variable script : list value -> list value -> list edit.

  (* how a comment can belong to element j of the list *)
  Definition attached (xs : list value) (j : nat) (xj : value) (c : Z * Z) : Prop :=
    (In c (fst (comments_for xj)) /\ (forall pv, prev_of None xs j = Some pv -> vend pv <= fst c) /\ snd c <= vpos xj)
    \/ (In c (snd (comments_for xj)) /\ vend xj <= fst c /\ (forall nx, nth_error xs (S j) = Some nx -> snd c <= vpos nx))
    \/ (vpos xj <= fst c /\ snd c <= vend xj).

  Theorem identity_element_keeps_its_comments k nend r t xs t' en ys w j xj c :
    walk script (S k) nend r (VSlice t true xs) (VSlice t' en ys) = Some w ->
    N.eqb t t' = true -> N.eqb t T_object = false -> N.eqb t T_cgroup = false ->
    (* the list: nodes in source order, each subtree within the extent of its root *)
    Forall node_ok xs -> ordered xs ->
    (forall i x e, nth_error xs i = Some x -> nth_error (xedits (script xs ys)) i = Some e -> e <> Identity ->
                   bounded_root (vpos x) (vend x) x) ->
    nopos < fst r -> (forall x0, nth_error xs 0 = Some x0 -> fst r <= vpos x0) ->
    (* the enclosing node, when its end is known, does not end before an element starts *)
    (nend = nopos \/ forall x, In x xs -> vpos x <= nend) ->
    (* element j is paired as identical, and the comment belongs to it *)
    nth_error xs j = Some xj -> nth_error (xedits (script xs ys)) j = Some Identity ->
    fst c < snd c -> attached xs j xj c ->
    Forall (not_inside c) (w_log w).
  Proof.
    intros H Et Eo Ec Hn Ho Hb Hr0 Hr1 Hnend Hj HI Hc Hat.
    eapply slice_log_not_inside; eauto.
    apply (posok_from c nend (script xs ys) xs (elem_regions r None xs)).
    intros i x rg e Hx Hrg He Hnid. assert (i <> j) as Hne by (intros ->; rewrite HI in He; inversion He; subst; apply Hnid; reflexivity).
    assert (nend = nopos \/ vpos x <= nend) as Hnendx by (destruct Hnend as [E0|E0]; [left; exact E0|right; apply E0; eapply nth_error_In; exact Hx]).
    clear Hnend.
    assert (rg = elem_region r (prev_of None xs i) x (nth_error xs (S i))) as -> by (rewrite (nth_elem_regions r xs None i x Hx) in Hrg; congruence). clear Hrg.
    set (prev := prev_of None xs i) in *. set (next := nth_error xs (S i)) in *.
    pose proof (nth_node_ok _ _ _ Hn Hx) as [Nx1 Nx2].
    pose proof (nth_node_ok _ _ _ Hn Hj) as [Nj1 Nj2].
    (* p0 <= vpos x, nopos <= p0 *)
    assert (p0_of r prev x <= vpos x /\ nopos < p0_of r prev x) as [Hp0 Hp0n].
    { unfold p0_of, prev, prev_of. destruct i as [|i'].
      - split; [apply Hr1; exact Hx|exact Hr0].
      - destruct (nth_error xs i') as [pv|] eqn:Epv; [|split; [apply Hr1|exact Hr0]].
        + pose proof (ord_lt xs i' (S i') pv x Ho Hn ltac:(lia) Epv Hx).
          destruct (nth_node_ok _ _ _ Hn Epv). destruct (snd (comments_for pv)); split; lia.
        + exfalso. apply nth_error_None in Epv. assert (nth_error xs (S i') <> None) by (rewrite Hx; discriminate).
          apply nth_error_Some in H0. lia. }
    destruct (er_fst r prev x next Hp0) as [F1 F2]. pose proof (er_snd r prev x next) as S1.
    set (rg0 := elem_region r prev x next) in *.
    unfold Excl. cbv zeta.
    assert (Z.min (fst rg0) (vpos x) = fst rg0) as Emin by lia. rewrite Emin.
    repeat split.
    - lia.
    - lia.
    - eapply bounded_root_mono; [| |exact (Hb i x e Hx He Hnid)]; lia.
    - right. lia.
    - (* the comment is outside *)
      destruct (Nat.lt_ge_cases i j) as [Hlt|Hge].
      + (* i < j: the region ends before the comment *)
        right. assert (exists nx, next = Some nx) as [nx Enx].
        { unfold next. destruct (nth_error xs (S i)) eqn:E; [eauto|]. apply nth_error_None in E.
          assert (nth_error xs j <> None) by (rewrite Hj; discriminate). apply nth_error_Some in H0. lia. }
        assert (vend x <= fst c) as V1.
        { destruct Hat as [[_ [Hp _]]|[[_ [Ha _]]|[Hi1 _]]].
          - destruct j as [|j']; [lia|]. cbn [prev_of] in Hp. destruct (nth_error xs j') as [pv|] eqn:Epv.
            + specialize (Hp pv eq_refl). pose proof (ord_le_end xs i j' x pv Ho Hn ltac:(lia) Hx Epv). lia.
            + apply nth_error_None in Epv. assert (nth_error xs (S j') <> None) by (rewrite Hj; discriminate).
              apply nth_error_Some in H0. lia.
          - pose proof (ord_lt xs i j x xj Ho Hn Hlt Hx Hj). lia.
          - pose proof (ord_lt xs i j x xj Ho Hn Hlt Hx Hj). lia. }
        assert (e0_of r x next <= fst c) as V2.
        { rewrite Enx. cbn [e0_of]. unfold next in Enx.
          destruct (fst (comments_for nx)) as [|b0 bs] eqn:Eb; [|lia].
          destruct (Nat.eq_dec (S i) j) as [Esj|Esj].
          - rewrite Esj, Hj in Enx. inversion Enx; subst nx.
            destruct Hat as [[Hin _]|[[_ [Ha _]]|[Hi1 _]]]; [rewrite Eb in Hin; contradiction|lia|lia].
          - destruct (nth_node_ok _ _ _ Hn Enx) as [Nn1 Nn2].
            destruct Hat as [[_ [Hp _]]|[[_ [Ha _]]|[Hi1 _]]].
            + destruct j as [|j']; [lia|]. cbn [prev_of] in Hp. destruct (nth_error xs j') as [pv|] eqn:Epv.
              * specialize (Hp pv eq_refl). pose proof (ord_le_end xs (S i) j' nx pv Ho Hn ltac:(lia) Enx Epv). lia.
              * apply nth_error_None in Epv. assert (nth_error xs (S j') <> None) by (rewrite Hj; discriminate).
                apply nth_error_Some in H0. lia.
            + pose proof (ord_lt xs (S i) j nx xj Ho Hn ltac:(lia) Enx Hj). lia.
            + pose proof (ord_lt xs (S i) j nx xj Ho Hn ltac:(lia) Enx Hj). lia. }
        lia.
      + (* i > j: the region starts after the comment *)
        left. assert (j < i)%nat as Hgt by lia. destruct i as [|i']; [lia|].
        assert (exists pv, prev = Some pv) as [pv Epv].
        { unfold prev. cbn [prev_of]. destruct (nth_error xs i') eqn:E; [eauto|]. apply nth_error_None in E.
          assert (nth_error xs (S i') <> None) by (rewrite Hx; discriminate). apply nth_error_Some in H0. lia. }
        assert (snd c <= vpos x) as V1.
        { destruct Hat as [[_ [_ Hb1]]|[[_ [_ Hnx]]|[_ Hi2]]].
          - pose proof (ord_lt xs j (S i') xj x Ho Hn Hgt Hj Hx). lia.
          - destruct (nth_error xs (S j)) as [nx|] eqn:Enx.
            + specialize (Hnx nx eq_refl). pose proof (ord_le_pos xs (S j) (S i') nx x Ho Hn ltac:(lia) Enx Hx). lia.
            + apply nth_error_None in Enx. assert (nth_error xs (S i') <> None) by (rewrite Hx; discriminate).
              apply nth_error_Some in H0. lia.
          - pose proof (ord_lt xs j (S i') xj x Ho Hn Hgt Hj Hx). lia. }
        assert (snd c <= p0_of r prev x) as V2.
        { rewrite Epv. cbn [p0_of]. unfold prev in Epv. cbn [prev_of] in Epv.
          destruct (snd (comments_for pv)) as [|a0 as_] eqn:Ea; [|exact V1].
          destruct (Nat.eq_dec i' j) as [Eij|Eij].
          - rewrite Eij, Hj in Epv. inversion Epv; subst pv.
            destruct Hat as [[_ [_ Hb1]]|[[Hin _]|[_ Hi2]]]; [lia|rewrite Ea in Hin; contradiction|lia].
          - destruct (nth_node_ok _ _ _ Hn Epv) as [Np1 Np2].
            destruct Hat as [[_ [_ Hb1]]|[[_ [_ Hnx]]|[_ Hi2]]].
            + pose proof (ord_lt xs j i' xj pv Ho Hn ltac:(lia) Hj Epv). lia.
            + destruct (nth_error xs (S j)) as [nx|] eqn:Enx.
              * specialize (Hnx nx eq_refl). pose proof (ord_le_pos xs (S j) i' nx pv Ho Hn ltac:(lia) Enx Epv). lia.
              * apply nth_error_None in Enx. assert (nth_error xs i' <> None) by (rewrite Epv; discriminate).
                apply nth_error_Some in H0. lia.
            + pose proof (ord_lt xs j i' xj pv Ho Hn ltac:(lia) Hj Epv). lia. }
        lia.
    - unfold lowok. destruct Hnendx as [E0|E0]; [left; exact E0|right; lia].
  Qed.
End Identity.

(* ================================================================== down to the comment list *)
From GP Require Import CommentFacts.

Lemma clear_not_covered (cm : cmt) (calls : list region) :
  Forall (not_inside (c_pos cm, c_end cm)) calls ->
  forall q, c_pos cm <= q < c_end cm -> ~ covers (record_changed calls) q.
Proof.
  intros Hall q Hq [i [Hi Hc]]. unfold record_changed in Hi. apply filter_In in Hi as [Hi Hv].
  rewrite Forall_forall in Hall. destruct (Hall i Hi) as [E|E].
  - unfold valid in Hv. rewrite E, Z.eqb_refl in Hv. discriminate.
  - exact (E q Hq Hc).
Qed.

(* a comment that every astdiff call of every step keeps clear of survives all clean-ups,
   whatever the replacers report as unchanged *)
Theorem clear_comment_survives (steps : list (list region * list iv)) (cs : list cmt) (cm : cmt) :
  In cm cs -> c_pos cm < c_end cm ->
  (forall s, In s steps -> Forall (not_inside (c_pos cm, c_end cm)) (fst s)) ->
  In cm (run_steps (map (fun s => (record_changed (fst s), snd s)) steps) cs).
Proof.
  intros Hin Hne Hall.
  apply (outside_changed_set_survives _ cs cm (fun q => ~ (c_pos cm <= q < c_end cm))); [exact Hin| |].
  - intros s q Hs Hcov Hq. apply in_map_iff in Hs as [s0 [<- Hs0]]. cbn [fst] in Hcov.
    exact (clear_not_covered cm (fst s0) (Hall s0 Hs0) q Hq Hcov).
  - exists (c_pos cm). split; [lia|]. intros H. apply H. lia.
Qed.

(* ================================================================== the executable side conditions *)
Lemma okposb_sound lo hi x : okposb lo hi x = true -> okpos lo hi x.
Proof.
  unfold okposb, okpos. intros H. apply orb_true_iff in H as [H|H]; [left; apply Z.eqb_eq; exact H|right].
  apply andb_true_iff in H as [A B]. apply Z.leb_le in A, B. lia.
Qed.

Lemma okcb_sound lo hi c : okcb lo hi c = true -> okc lo hi c.
Proof.
  unfold okcb, okc, inr. intros H. repeat (apply andb_true_iff in H as [H ?]).
  repeat match goal with H : (_ <=? _) = true |- _ => apply Z.leb_le in H end. lia.
Qed.

Lemma nodeposb_sound lo hi i : nodeposb lo hi i = true -> nodepos lo hi i.
Proof.
  unfold nodeposb, nodepos, inrb, inr. intros H E. rewrite E in H. cbn [negb orb] in H.
  repeat (apply andb_true_iff in H as [H ?]).
  repeat match goal with H : (_ <=? _) = true |- _ => apply Z.leb_le in H end. lia.
Qed.

Lemma boundedb_sound lo hi : forall v, boundedb lo hi v = true -> bounded lo hi v.
Proof.
  fix IH 1. intros v. destruct v as [t|p|t a|t i e|t en cs|t cs]; cbn [boundedb bounded]; intros H.
  - exact I.
  - apply okposb_sound; exact H.
  - exact I.
  - repeat (apply andb_true_iff in H as [H ?]).
    split; [apply okposb_sound; assumption|]. split; [apply okposb_sound; assumption|].
    split; [apply nodeposb_sound; assumption|]. split.
    + apply Forall_forall. intros g Hg. apply Forall_forall. intros c Hc.
      match goal with H : forallb _ (n_cmts i) = true |- _ => rewrite forallb_forall in H; specialize (H g Hg); rewrite forallb_forall in H; apply okcb_sound, H, Hc end.
    + apply IH; assumption.
  - apply andb_true_iff in H as [H Hn]. split.
    + clear Hn. induction cs as [|c0 cs IHcs]; [exact I|]. apply andb_true_iff in H as [A B]. split; [apply IH; exact A|apply IHcs; exact B].
    + intros ->. cbn [negb orb] in Hn. exact Hn.
  - induction cs as [|c0 cs IHcs]; [exact I|]. apply andb_true_iff in H as [A B]. split; [apply IH; exact A|apply IHcs; exact B].
Qed.

Lemma bounded_rootb_sound lo hi : forall v, bounded_rootb lo hi v = true -> bounded_root lo hi v.
Proof.
  induction v as [t|p|t a|t i e IH|t en cs|t cs]; cbn [bounded_rootb bounded_root]; intros H;
    try (apply boundedb_sound; exact H).
  repeat (apply andb_true_iff in H as [H ?]).
  split; [apply okposb_sound; assumption|]. split; [apply okposb_sound; assumption|].
  split; [apply nodeposb_sound; assumption|]. apply IH; assumption.
Qed.

Lemma node_okb_sound x : node_okb x = true -> node_ok x.
Proof. unfold node_okb, node_ok. intros H. apply andb_true_iff in H as [A B]. apply Z.ltb_lt in A. apply Z.leb_le in B. lia. Qed.

Lemma orderedb_sound : forall xs, orderedb xs = true -> ordered xs.
Proof.
  induction xs as [|a xs IH]; intros H; [exact I|]. destruct xs as [|b tl]; [exact I|].
  cbn [orderedb] in H. apply andb_true_iff in H as [A B]. apply Z.leb_le in A. split; [exact A|apply IH; exact B].
Qed.

Lemma memb_In c l : memb c l = true -> In c l.
Proof.
  unfold memb. intros H. apply existsb_exists in H as [x [Hx E]]. unfold pair_eqb in E.
  apply andb_true_iff in E as [A B]. apply Z.eqb_eq in A, B. destruct c, x; simpl in *; subst. exact Hx.
Qed.

Lemma attachedb_sound xs j xj c : attachedb xs j xj c = true -> attached xs j xj c.
Proof.
  unfold attachedb, attached. intros H. apply orb_true_iff in H as [H|H]; [apply orb_true_iff in H as [H|H]|].
  - left. repeat (apply andb_true_iff in H as [H ?]). split; [apply memb_In; exact H|]. split.
    + intros pv E. unfold prev_elem in *. unfold prev_of in E. rewrite E in *.
      match goal with H : (vend pv <=? _) = true |- _ => apply Z.leb_le in H; exact H end.
    + match goal with H : (snd c <=? _) = true |- _ => apply Z.leb_le in H; exact H end.
  - right. left. repeat (apply andb_true_iff in H as [H ?]). split; [apply memb_In; exact H|]. split.
    + match goal with H : (vend xj <=? _) = true |- _ => apply Z.leb_le in H; exact H end.
    + intros nx E. rewrite E in *. match goal with H : (snd c <=? vpos nx) = true |- _ => apply Z.leb_le in H; exact H end.
  - right. right. apply andb_true_iff in H as [A B]. apply Z.leb_le in A, B. lia.
Qed.

Lemma nth_error_combine {A B} : forall (l : list A) (l' : list B) i a b,
  nth_error l i = Some a -> nth_error l' i = Some b -> nth_error (combine l l') i = Some (a, b).
Proof.
  induction l as [|x l IH]; intros l' i a b Ha Hb; [destruct i; discriminate|].
  destruct l' as [|y l']; [destruct i; discriminate|]. destruct i as [|i]; simpl in *.
  - inversion Ha; inversion Hb; subst. reflexivity.
  - apply IH; assumption.
Qed.

(* the theorem with its side conditions in executable form *)
Theorem identity_element_keeps_its_comments_b script k nend r t xs t' en ys w j xj c :
  walk script (S k) nend r (VSlice t true xs) (VSlice t' en ys) = Some w ->
  N.eqb t t' = true -> N.eqb t T_object = false -> N.eqb t T_cgroup = false ->
  list_okb nend r xs (xedits (script xs ys)) = true ->
  nth_error xs j = Some xj -> nth_error (xedits (script xs ys)) j = Some Identity ->
  fst c < snd c -> attachedb xs j xj c = true ->
  Forall (not_inside c) (w_log w).
Proof.
  intros H Et Eo Ec Hl Hj HI Hc Ha. unfold list_okb in Hl.
  apply andb_true_iff in Hl as [Hl Hnend].
  repeat (apply andb_true_iff in Hl as [Hl ?]).
  eapply identity_element_keeps_its_comments; eauto.
  - apply Forall_forall. intros x Hx. apply node_okb_sound. rewrite forallb_forall in Hl. auto.
  - apply orderedb_sound; assumption.
  - intros i x e Hx He Hnid. apply bounded_rootb_sound.
    match goal with H : forallb _ (combine xs _) = true |- _ => rewrite forallb_forall in H;
      specialize (H (x, e) (nth_error_In _ _ (nth_error_combine _ _ _ _ _ Hx He))); cbn [fst snd] in H end.
    destruct e; try (exfalso; apply Hnid; reflexivity); cbn [is_identity orb] in *; assumption.
  - match goal with H : (nopos <? fst r) = true |- _ => apply Z.ltb_lt in H; exact H end.
  - intros x0 E. destruct xs as [|a xs']; [discriminate|]. simpl in E. inversion E; subst.
    match goal with H : (fst r <=? vpos x0) = true |- _ => apply Z.leb_le in H; exact H end.
  - apply orb_true_iff in Hnend as [E|E]; [left; apply Z.eqb_eq; exact E|right].
    intros x Hx. rewrite forallb_forall in E. apply Z.leb_le, E, Hx.
  - apply attachedb_sound; exact Ha.
Qed.

Lemma list_okb_parts nend r xs es : list_okb nend r xs es = forallb (fun b => b) (list_ok_parts nend r xs es).
Proof. unfold list_okb, list_ok_parts. cbn [forallb]. rewrite andb_true_r, <- !andb_assoc. reflexivity. Qed.
