(* The pairing of '+' elisions with '-' elisions depends only on the ORDER of their positions
   in the patch, not on the positions themselves: re-wrapping or re-indenting the patch (any
   map of positions that keeps the (line, column) order among the elisions) gives the same
   pairing. *)
From GP Require Import Tree Meta Match Replace.
From Coq Require Import Lia.

Section Mono.
  Variable f : dpos -> dpos.
  Variable S : dpos -> Prop.             (* the elisions of the change, both sides *)
  Hypothesis Hid : forall a, dp_id (f a) = dp_id a.
  Hypothesis Hle : forall a b, S a -> S b -> dpos_le (f a) (f b) = dpos_le a b.

  Definition step (r : dpos) (best : option dpos) (l : dpos) : option dpos :=
    if dpos_le l r
    then match best with
         | Some b => if dpos_le b l then Some l else Some b
         | None => Some l
         end
    else best.

  Lemma best_le_fold lhs r : best_le lhs r = fold_left (step r) lhs None.
  Proof. reflexivity. Qed.

  Lemma fold_step_map r : S r -> forall l acc,
    (forall x, In x l -> S x) -> (forall b, acc = Some b -> S b) ->
    fold_left (step (f r)) (map f l) (option_map f acc) = option_map f (fold_left (step r) l acc) /\
    (forall b, fold_left (step r) l acc = Some b -> S b).
  Proof.
    intros Sr. induction l as [|x l IH]; intros acc Hl Hacc; cbn [map fold_left].
    - split; [reflexivity|exact Hacc].
    - assert (S x) as Sx by (apply Hl; left; reflexivity).
      assert (step (f r) (option_map f acc) (f x) = option_map f (step r acc x) /\ (forall b, step r acc x = Some b -> S b)) as [E Sb].
      { unfold step. rewrite (Hle x r Sx Sr). destruct (dpos_le x r); [|split; [reflexivity|exact Hacc]].
        destruct acc as [b|]; cbn [option_map].
        - assert (S b) as Sb by (apply Hacc; reflexivity). rewrite (Hle b x Sb Sx).
          destruct (dpos_le b x); (split; [reflexivity|intros b' H; inversion H; subst; assumption]).
        - split; [reflexivity|intros b' H; inversion H; subst; assumption]. }
      rewrite E. apply IH; [intros; apply Hl; right; assumption|exact Sb].
  Qed.

  Lemma best_le_map lhs r : S r -> (forall x, In x lhs -> S x) ->
    best_le (map f lhs) (f r) = option_map f (best_le lhs r).
  Proof.
    intros Sr Hl. rewrite !best_le_fold.
    destruct (fold_step_map r Sr lhs None Hl) as [E _]; [discriminate|]. exact E.
  Qed.

  Lemma pick_map lead lhs r : S r -> (forall x, In x lhs -> S x) ->
    pick lead (map f lhs) (f r) = option_map f (pick lead lhs r).
  Proof.
    intros Sr Hl. unfold pick. rewrite (best_le_map lhs r Sr Hl).
    assert (forall b, best_le lhs r = Some b -> S b) as Sb.
    { rewrite best_le_fold. destruct (fold_step_map r Sr lhs None Hl) as [_ H]; [discriminate|exact H]. }
    destruct (best_le lhs r) as [l|]; cbn [option_map]; [|reflexivity].
    assert (S l) as Sl by (apply Sb; reflexivity).
    unfold same_place. rewrite Hid, (Hle l r Sl Sr), (Hle r l Sr Sl).
    destruct (N.eqb (dp_id l) lead && negb (dpos_le l r && dpos_le r l)); reflexivity.
  Qed.

  Theorem connect_dots_order_only lead lhs rhs :
    (forall x, In x lhs -> S x) -> (forall x, In x rhs -> S x) ->
    connect_dots lead (map f lhs) (map f rhs) = connect_dots lead lhs rhs.
  Proof.
    intros Hl. induction rhs as [|r rhs IH]; intros Hr; cbn [map connect_dots]; [reflexivity|].
    rewrite (pick_map lead lhs r (Hr r (or_introl eq_refl)) Hl).
    destruct (pick lead lhs r) as [l|]; cbn [option_map]; [|reflexivity].
    rewrite IH by (intros; apply Hr; right; assumption). rewrite !Hid. reflexivity.
  Qed.
End Mono.
