From GP Require Import Bytes BytesFacts FsProto.
From Coq Require Import Lia Arith.
Local Open Scope nat_scope.

Lemma beq_false a b : beq a b = false <-> a <> b.
Proof.
  split; intros H.
  - intros ->. rewrite beq_refl in H. discriminate.
  - destruct (beq a b) eqn:E; [apply beq_eq in E; contradiction|reflexivity].
Qed.

Lemma lookup_remove f p q : lookup (remove f p) q = if beq p q then None else lookup f q.
Proof.
  induction f as [|[r c] f IH]; simpl.
  - destruct (beq p q); reflexivity.
  - destruct (beq r p) eqn:E.
    + apply beq_eq in E. subst r. rewrite IH. destruct (beq p q); reflexivity.
    + simpl. rewrite IH. destruct (beq r q) eqn:E2; [|reflexivity].
      apply beq_eq in E2. subst r. destruct (beq p q) eqn:E3; [|reflexivity].
      apply beq_eq in E3. subst q. rewrite beq_refl in E. discriminate.
Qed.

Lemma lookup_set f p c q : lookup (set f p c) q = if beq p q then Some c else lookup f q.
Proof.
  unfold set. simpl. destruct (beq p q) eqn:E; [reflexivity|].
  rewrite lookup_remove, E. reflexivity.
Qed.

Arguments set : simpl never.
Arguments remove : simpl never.
Arguments lookup : simpl never.

Lemma apply_ops_app f a b : apply_ops f (a ++ b) = apply_ops (apply_ops f a) b.
Proof. unfold apply_ops. apply fold_left_app. Qed.

(* ---- appending chunks to the temporary file ---- *)
Lemma appends_lookup f tmp chunks c0 q :
  lookup f tmp = Some c0 ->
  lookup (apply_ops f (map (OAppend tmp) chunks)) q
  = if beq tmp q then Some (c0 ++ concat chunks) else lookup f q.
Proof.
  revert f c0; induction chunks as [|ch chunks IH]; intros f c0 H; simpl.
  - rewrite app_nil_r. destruct (beq tmp q) eqn:E; [apply beq_eq in E; subst; exact H|reflexivity].
  - unfold apply_ops in *. simpl. rewrite H.
    rewrite (IH (set f tmp (c0 ++ ch)) (c0 ++ ch)).
    + rewrite lookup_set. destruct (beq tmp q); [rewrite app_assoc|]; reflexivity.
    + rewrite lookup_set, beq_refl. reflexivity.
Qed.

Lemma firstn_In {A} (x : A) n l : In x (firstn n l) -> In x l.
Proof.
  revert n; induction l as [|y l IH]; intros [|n]; simpl; try tauto.
  intros [H|H]; [left; exact H | right; eapply IH; eauto].
Qed.

Lemma firstn_map {A B} (g : A -> B) n l : firstn n (map g l) = map g (firstn n l).
Proof. revert n; induction l; intros [|n]; simpl; try reflexivity. f_equal. apply IHl. Qed.

(* State after any prefix of the protocol: every path other than tmp holds what it held
   before, except that after the final rename the target holds exactly the new bytes. *)
Lemma atomic_write_prefix f tmp target chunks k q :
  lookup f tmp = None -> tmp <> target -> q <> tmp ->
  let cur := apply_ops f (firstn k (atomic_write tmp target chunks)) in
  lookup cur q = lookup f q \/ (q = target /\ lookup cur q = Some (concat chunks)).
Proof.
  intros Ht Hne Hq. unfold atomic_write.
  assert (beq tmp q = false) as Bq by (apply beq_false; auto).
  destruct k as [|k]; [left; reflexivity|]. simpl firstn.
  change (apply_ops f (OCreate tmp :: ?l)) with (apply_ops (apply_op f (OCreate tmp)) l).
  simpl apply_op. rewrite Ht.
  assert (lookup (set f tmp []) tmp = Some []) as H0 by (rewrite lookup_set, beq_refl; reflexivity).
  rewrite firstn_app. rewrite apply_ops_app, firstn_map.
  set (f1 := apply_ops (set f tmp []) (map (OAppend tmp) (firstn k chunks))).
  assert (forall r, lookup f1 r = if beq tmp r then Some (concat (firstn k chunks)) else lookup f r) as L1.
  { intros r. unfold f1. rewrite (appends_lookup _ _ _ [] r H0). rewrite lookup_set. simpl.
    destruct (beq tmp r); reflexivity. }
  rewrite map_length.
  destruct (k - length chunks) as [|[|j]] eqn:Ek; simpl firstn.
  - left. simpl. rewrite L1, Bq. reflexivity.
  - left. unfold apply_ops. simpl. rewrite L1, Bq. reflexivity.
  - (* the rename has happened: all chunks were written *)
    assert (firstn k chunks = chunks) as Hall by (apply firstn_all2; lia).
    unfold apply_ops. simpl. rewrite L1, beq_refl, Hall, firstn_nil. simpl.
    rewrite lookup_set, lookup_remove, Bq.
    destruct (beq target q) eqn:Et.
    + right. apply beq_eq in Et. auto.
    + left. rewrite L1, Bq. reflexivity.
Qed.

(* the complete protocol: tmp is gone again, target holds the new bytes, the rest is untouched *)
Lemma atomic_write_done f tmp target chunks q :
  lookup f tmp = None -> tmp <> target ->
  lookup (apply_ops f (atomic_write tmp target chunks)) q
  = if beq target q then Some (concat chunks) else lookup f q.
Proof.
  intros Ht Hne. unfold atomic_write.
  change (apply_ops f (OCreate tmp :: ?l)) with (apply_ops (apply_op f (OCreate tmp)) l).
  simpl apply_op. rewrite Ht. rewrite apply_ops_app.
  assert (lookup (set f tmp []) tmp = Some []) as H0 by (rewrite lookup_set, beq_refl; reflexivity).
  set (f1 := apply_ops (set f tmp []) (map (OAppend tmp) chunks)).
  assert (forall r, lookup f1 r = if beq tmp r then Some (concat chunks) else lookup f r) as L1.
  { intros r. unfold f1. rewrite (appends_lookup _ _ _ [] r H0). rewrite lookup_set. simpl.
    destruct (beq tmp r); reflexivity. }
  unfold apply_ops. simpl. rewrite L1, beq_refl, lookup_set, lookup_remove.
  destruct (beq target q) eqn:Et; [reflexivity|].
  destruct (beq tmp q) eqn:Eq; [|rewrite L1, Eq; reflexivity].
  apply beq_eq in Eq. subst q. symmetry. exact Ht.
Qed.

(* the failure path: nothing but tmp is ever affected, and tmp is removed at the end *)
Lemma atomic_write_failed_prefix f tmp target chunks k j q :
  lookup f tmp = None -> q <> tmp ->
  lookup (apply_ops f (firstn j (atomic_write_failed tmp target chunks k))) q = lookup f q.
Proof.
  intros Ht Hq. assert (beq tmp q = false) as Bq by (apply beq_false; auto).
  unfold atomic_write_failed.
  assert (forall ops g, (forall op, In op ops -> op = OCreate tmp \/ (exists b, op = OAppend tmp b) \/
                                       op = OChmod tmp \/ op = OUnlink tmp) ->
                        lookup (apply_ops g ops) q = lookup g q) as K.
  { induction ops as [|op ops IH]; intros g Hall; [reflexivity|].
    change (apply_ops g (op :: ops)) with (apply_ops (apply_op g op) ops).
    rewrite IH by (intros o Ho; apply Hall; right; exact Ho).
    destruct (Hall op (or_introl eq_refl)) as [->|[[b ->]|[->| ->]]]; simpl.
    - destruct (lookup g tmp); [reflexivity|]. rewrite lookup_set, Bq. reflexivity.
    - destruct (lookup g tmp); [|reflexivity]. rewrite lookup_set, Bq. reflexivity.
    - reflexivity.
    - rewrite lookup_remove, Bq. reflexivity. }
  apply K. intros op Hop. apply firstn_In in Hop. apply in_app_iff in Hop as [Hop|[<-|[]]]; [|auto].
  apply firstn_In in Hop. destruct Hop as [<-|Hop]; [auto|].
  apply in_app_iff in Hop as [Hop|[<-|[]]]; [|auto].
  apply in_map_iff in Hop as [b [<- _]]. right. left. eauto.
Qed.

Lemma atomic_write_failed_done f tmp target chunks k q :
  lookup f tmp = None ->
  lookup (apply_ops f (atomic_write_failed tmp target chunks k)) q = lookup f q.
Proof.
  intros Ht. destruct (beq tmp q) eqn:E.
  - apply beq_eq in E. subst q. unfold atomic_write_failed. rewrite apply_ops_app.
    unfold apply_ops at 1. simpl. rewrite lookup_remove, beq_refl. symmetry. exact Ht.
  - assert (q <> tmp) as Hq by (apply beq_false in E; auto).
    pose proof (atomic_write_failed_prefix f tmp target chunks k
                  (length (atomic_write_failed tmp target chunks k)) q Ht Hq) as H.
    rewrite firstn_all in H. exact H.
Qed.

(* ---- a whole run: one protocol instance per written file ---- *)

(* temporary names are fresh: absent from the file system and never a target *)
Definition fresh_tmps (f : fs) (ws : list wr) : Prop :=
  forall w, In w ws -> lookup f (w_tmp w) = None /\ forall w', In w' ws -> w_tmp w <> w_target w'.

Definition written (ws : list wr) (q : path) (c : bytes) : Prop :=
  exists w, In w ws /\ w_fail w = None /\ w_target w = q /\ c = concat (w_chunks w).

Lemma wr_done f w q :
  lookup f (w_tmp w) = None -> w_tmp w <> w_target w ->
  lookup (apply_ops f (wr_ops w)) q
  = match w_fail w with
    | None => if beq (w_target w) q then Some (concat (w_chunks w)) else lookup f q
    | Some _ => lookup f q
    end.
Proof.
  intros Ht Hne. unfold wr_ops. destruct (w_fail w).
  - apply atomic_write_failed_done. exact Ht.
  - apply atomic_write_done; assumption.
Qed.

Lemma wr_prefix f w k q :
  lookup f (w_tmp w) = None -> w_tmp w <> w_target w -> q <> w_tmp w ->
  let cur := apply_ops f (firstn k (wr_ops w)) in
  lookup cur q = lookup f q \/
  (w_fail w = None /\ q = w_target w /\ lookup cur q = Some (concat (w_chunks w))).
Proof.
  intros Ht Hne Hq. unfold wr_ops. destruct (w_fail w) as [j|].
  - left. apply atomic_write_failed_prefix; assumption.
  - destruct (atomic_write_prefix f (w_tmp w) (w_target w) (w_chunks w) k q Ht Hne Hq) as [H|[H1 H2]];
      [left; exact H | right; auto].
Qed.

(* After ANY prefix of the operations of ANY run, every path that is not one of the
   temporary names holds either what it held originally or the complete new content of
   a successful write to it. *)
Theorem run_prefix_safe ws : forall f k q,
  fresh_tmps f ws -> (forall w, In w ws -> q <> w_tmp w) ->
  let cur := apply_ops f (firstn k (run_ops ws)) in
  lookup cur q = lookup f q \/ exists c, written ws q c /\ lookup cur q = Some c.
Proof.
  induction ws as [|w ws IH]; intros f k q Hf Hq; simpl.
  - rewrite firstn_nil. left. reflexivity.
  - destruct (Hf w (or_introl eq_refl)) as [Ht Hd].
    assert (w_tmp w <> w_target w) as Hne by (apply Hd; left; reflexivity).
    assert (q <> w_tmp w) as Hqw by (apply Hq; left; reflexivity).
    rewrite firstn_app, apply_ops_app.
    destruct (Nat.le_gt_cases k (length (wr_ops w))) as [Hk|Hk].
    + replace (k - length (wr_ops w)) with 0 by lia. simpl firstn. unfold apply_ops at 1. simpl.
      destruct (wr_prefix f w k q Ht Hne Hqw) as [H|[H1 [H2 H3]]]; [left; exact H|].
      right. exists (concat (w_chunks w)). split; [|exact H3].
      exists w. repeat split; auto. left. reflexivity.
    + rewrite firstn_all2 by lia.
      set (f1 := apply_ops f (wr_ops w)).
      assert (fresh_tmps f1 ws) as Hf1.
      { intros w' Hw'. destruct (Hf w' (or_intror Hw')) as [Ht' Hd']. split.
        - unfold f1. rewrite (wr_done f w _ Ht Hne). destruct (w_fail w); [exact Ht'|].
          destruct (beq (w_target w) (w_tmp w')) eqn:E; [|exact Ht'].
          apply beq_eq in E. exfalso. apply (Hd' w (or_introl eq_refl)). auto.
        - intros w'' Hw''. apply Hd'. right. exact Hw''. }
      destruct (IH f1 (k - length (wr_ops w)) q Hf1 (fun w' Hw' => Hq w' (or_intror Hw')))
        as [H|[c [[w' [Hw' [Hs [Htg Hc]]]] H]]].
      * rewrite H. unfold f1. rewrite (wr_done f w q Ht Hne).
        destruct (w_fail w) eqn:Fw; [left; reflexivity|].
        destruct (beq (w_target w) q) eqn:E; [|left; reflexivity].
        apply beq_eq in E. right. exists (concat (w_chunks w)). split; [|reflexivity].
        exists w. repeat split; auto. left. reflexivity.
      * right. exists c. split; [|exact H]. exists w'. repeat split; auto. right. exact Hw'.
Qed.

(* ---- the unfixed protocol is not safe ---- *)
Lemma truncating_write_unsafe :
  exists f target chunks k c,
    lookup f target = Some c /\
    let cur := apply_ops f (firstn k (truncating_write target chunks)) in
    lookup cur target <> Some c /\ lookup cur target <> Some (concat chunks).
Proof.
  exists [([1%N], [10%N; 11%N])], [1%N], [[20%N]; [21%N]], 2, [10%N; 11%N].
  vm_compute. repeat split; discriminate.
Qed.

(* ---- soundness of the executable trace checker ---- *)
Lemma trace_safe_sound orig news watched ops : forall cur,
  trace_safe orig news cur watched ops = true ->
  forall k, state_ok orig news (apply_ops cur (firstn k ops)) watched = true.
Proof.
  induction ops as [|op ops IH]; intros cur H k; simpl in H; apply andb_true_iff in H as [H1 H2].
  - rewrite firstn_nil. exact H1.
  - destruct k as [|k]; [exact H1|]. simpl firstn.
    change (apply_ops cur (op :: ?l)) with (apply_ops (apply_op cur op) l). apply IH. exact H2.
Qed.
