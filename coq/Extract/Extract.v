(* Extraction of the executable models.  ExtrOcamlBasic only: N, Z, nat and
   byte strings stay the extracted inductive datatypes. *)
Require Extraction.
Require Import ExtrOcamlBasic.
From GP Require Import Bytes Generated Cli FsProto Discover Section Meta PosMap Tree Match Replace FileEngine Program Augment Comments AugmentShape AstDiff Loader.

Extraction "gpmodel.ml"
  check_generated_code
  Cli.run all_errors exit_status api_apply
  check_run run_ops
  find_files abs_string
  Section.split split_patch to_bytes
  parse_meta compile_meta lookup_var meta_position
  run_changes connect_dots change_assoc mtch_node inst_node eqvb
  augment Augment.find augs_okb wfb
  changed_intervals cleanup run_steps lines_to_merge
  diff_snapshot the_script decl_report decl_conditions one_change_report record_changed file_decls file_decls_to elem_regions xedits vpos vend
  load_patches listed.
