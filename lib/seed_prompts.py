"""Write the task descriptions handed to seeding sub-agents: python3 lib/seed_prompts.py <round-tag> [ID...]
A sub-agent gets the text of ONE property, the list of ideas already used for it (so that it picks new ones) and
its own scratch worktree /tmp/wt<tag>-<ID>; nothing from /verif."""
import glob, json, os, subprocess, sys

ROOT = os.path.dirname(os.path.dirname(os.path.abspath(__file__)))
TEMPLATE = open("/tmp/prompt-C19.txt").read() if os.path.exists("/tmp/prompt-C19.txt") else None


def prop_text(p):
    out = ["Title: " + p["title"], "", "Statement: " + p["statement"], ""]
    q = p.get("quantifier") or {}
    if q.get("text"):
        out += ["Quantified over: " + q["text"], ""]
    out.append("Anchors (where the mechanism lives):")
    for a in (p.get("anchors") or {}).get("mechanism", []):
        out.append(" - %s -- %s" % (a.get("name", ""), a.get("where", "")))
    return "\n".join(out)


def main():
    tag = sys.argv[1]
    ids = sys.argv[2:]
    props = {}
    for l in open(os.path.join(ROOT, "properties.jsonl")):
        p = json.loads(l)
        props[p["id"]] = p
    for pid in ids or sorted(props):
        wt = "/tmp/wt%s-%s" % (tag, pid)
        earlier = []
        for d in sorted(glob.glob(os.path.join(ROOT, "seeded", pid + "-*"))):
            m = json.load(open(os.path.join(d, "meta.json")))
            earlier.append("(%s) %s" % (", ".join(m.get("files_touched", [])), m.get("summary", "")[:170]))
        body = """You are helping test a verification framework by writing a realistic BUG (a "seeded change") into a Go project. Work ONLY inside the git worktree {wt} (a checkout of the Go project uber-go/gopatch, a refactoring tool that applies semantic patches to Go files). Do not read or touch /verif or /repo. No network is available. Per shell call first run: `export GOFLAGS=-mod=mod GOPROXY=off GOSUMDB=off GOTOOLCHAIN=local`.

The property the project is supposed to satisfy (read it carefully):

---
{prop}

---

Your task: produce TWO different, independent changes to the Go source (main.go, loader.go, patch/gopatch.go, internal/...; not tests, not testdata, not any *verif_hooks.go file) each of which BREAKS this property while (a) the project still compiles (`go build ./...` and `go vet ./...` fine), and (b) the existing test-suite still passes unedited (`go test ./...`). The changes should look like plausible mistakes a developer could make (a refactor gone slightly wrong, an "optimisation", a mishandled edge case), NOT sabotage that ordinary use would expose at once. Prefer changes that need something specific to manifest: a particular flag combination, an unusual input, a multi-file run or multi-step sequence, a fault at a particular point, two cooperating sites that each look fine alone, etc. This is a further round for this property: earlier attempts already covered the following ideas, so pick DIFFERENT code sites and mechanisms, the subtler the better (interactions between two features, state carried between files or changes, rarely used Go syntax, boundary sizes, error paths): {earlier}

For EACH change deliver, in {wt}/seed1/ and {wt}/seed2/ (create these directories; they are untracked and not part of the Go module):
  1. `patch.diff` — the change as a unified diff produced by `git diff` relative to HEAD (it must apply with `git apply` on a clean checkout of HEAD). Only source changes; do not include your demonstration in the diff.
  2. a demonstration: a small shell script `demo.sh` (may use temp dirs under /tmp, may build the binary with `cd "$1" && go build -o /tmp/somebin .`, or write a small Go test program that imports github.com/uber-go/gopatch/patch from inside the checkout) that exits 0 on the ORIGINAL code and exits non-zero WITH the change applied, showing the property violation. The script takes the path of a gopatch source checkout as $1.
  3. `meta.json` with keys: "property": "{pid}", "summary": one sentence on what the change does, "needs": what specific circumstances are needed for the violation to manifest, "files_touched": [...].

Procedure: make change 1 in the worktree, run build+vet+tests, write and run the demo (must fail), save `git diff` to seed1/patch.diff, then `git checkout -- .` (the seed dirs are untracked and stay), confirm the demo passes on the clean tree, then do the same for change 2. Leave the worktree clean (apart from the untracked seed1/ seed2/ directories) when done.

Report back: for each seed, the summary, what it needs to manifest, and confirmation that build, vet, `go test ./...` passed with the change and that demo.sh fails with it and passes without. In addition: if, while experimenting, you notice that the ORIGINAL, unchanged code already violates the property on some input (a genuine defect of the project), report the exact input files, the command and the observed output at the end of your report under the heading BASELINE DEFECTS (do not try to fix it).
""".format(wt=wt, prop=prop_text(props[pid]), earlier=" | ".join(earlier), pid=pid)
        open("/tmp/prompt%s-%s.txt" % (tag, pid), "w").write(body)
        print(pid, wt, len(earlier), "earlier ideas")


if __name__ == "__main__":
    main()
