"""Correspondence of the patch front end (section splitter, metavariable section, positions)
between /repo's code (harness 'split') and the Coq models Section.v / Meta.v / PosMap.v."""
import re
import vlib
from vlib import b64, unb64, hx, unhx, sx

ERRPOS = re.compile(r"([^\s:;]+):(\d+):(\d+): ")
SKIND = {"badname": "invalid name", "badheader": 'expected "@@" or', "nometaend": 'unexpected EOF, expected "@@"',
         "nochange": "at least one change is required"}
MKIND = {"expected-var": 'expected "var"', "expected-ident": "expected an identifier", "expected-semi": 'expected ";" or a newline',
         "unknown-type": "unknown metavariable type", "duplicate": "cannot define metavariable"}


def linecol(content, off):
    """token.File.Position: a line start equal to the file size is not in the line table"""
    starts = [0] + [i + 1 for i, c in enumerate(content) if c == 10 and i + 1 < len(content)]
    k = max(j for j, st in enumerate(starts) if st <= off)
    return k + 1, off - starts[k] + 1


def analyse(patches, name="p.patch"):
    """patches: list of bytes. -> list of dicts {impl, model, meta: [...], mismatches: [...]}"""
    impl = vlib.harness("split", {"items": [{"name": name, "src": b64(p)} for p in patches]})["results"]
    model = vlib.model([sx(["split", hx(p)]) for p in patches])
    out = []
    meta_cases, meta_idx = [], []
    for i, (p, im, mo) in enumerate(zip(patches, impl, model)):
        r = {"impl": im, "model": mo, "mismatches": [], "meta": {}}
        out.append(r)
        if im.get("panic"):
            r["mismatches"].append("section.Split panicked: %s" % im["panic"][:200])
            continue
        if mo[0] != "result":
            r["mismatches"].append("model error %r" % (mo,))
            continue
        mchanges = vlib.field(mo, "changes")
        merrs = vlib.field(mo, "errors")
        ichanges = im["changes"] or []
        if len(mchanges) != len(ichanges):
            r["mismatches"].append("number of changes: model %d, gopatch %d" % (len(mchanges), len(ichanges)))
        for k, (mc, ic) in enumerate(zip(mchanges, ichanges)):
            f = lambda tag: vlib.field(mc, tag)
            mm = []
            if int(f("header")[0]) != ic["header"]:
                mm.append("header offset %s vs %s" % (f("header")[0], ic["header"]))
            if unhx(f("name")[0]).decode("utf-8", "replace") != ic["name"]:
                mm.append("name %r vs %r" % (unhx(f("name")[0]), ic["name"]))
            at = f("at")[0]
            if (-1 if at == "none" else int(at)) != ic["at"]:
                mm.append("@@ offset %s vs %s" % (at, ic["at"]))
            for sec in ("meta", "patch"):
                ml = [(int(o), unhx(t)) for o, t in f(sec)]
                il = [(l["off"], unb64(l["text"])) for l in (ic[sec] or [])]
                if ml != il:
                    mm.append("%s lines differ" % sec)
            # parse.splitPatch: the '-' and '+' versions of the body (text; per line: offset in the text, offset in the patch file)
            for side in ("minus", "plus"):
                mv = f(side)[0]
                iv = ic.get(side) or {}
                mtext, mlines = unhx(mv[0]), [[int(a), int(b)] for a, b in mv[1]]
                if mtext != unb64(iv.get("contents") or "") or mlines != (iv.get("lines") or []):
                    mm.append("the %s version of the body differs (model %r, gopatch %r)" % (side, mtext[:60], unb64(iv.get("contents") or "")[:60]))
            mcom = [unhx(c).decode("utf-8", "replace") for c in f("comments")]
            if mcom != (ic["comments"] or []):
                mm.append("description %r vs %r" % (mcom, ic["comments"]))
            if mm:
                r["mismatches"].append("change %d: %s" % (k, "; ".join(mm)))
        ierrs = im["errors"] or []
        if len(merrs) != len(ierrs):
            r["mismatches"].append("number of splitter errors: model %d, gopatch %d (%r)" % (len(merrs), len(ierrs), ierrs[:2]))
        for me, ie in zip(merrs, ierrs):
            want = linecol(p, int(me[1]))
            m = ERRPOS.search(ie)
            got = (int(m.group(2)), int(m.group(3))) if m else None
            if got != want or SKIND[me[0]] not in ie:
                r["mismatches"].append("splitter error: model %s at %s, gopatch %r" % (me[0], want, ie[:120]))
        if not merrs and not ierrs:
            for k, ic in enumerate(ichanges):
                meta_cases.append(sx(["meta", hx(p), ["lines"] + [[l["off"], hx(unb64(l["text"]))] for l in (ic["meta"] or [])],
                                      ["toks"] + [[t["off"], t["kind"], hx(t["text"])] for t in (ic["toks"] or [])]]))
                meta_idx.append((i, k))
    for (i, k), res in zip(meta_idx, vlib.model(meta_cases)):
        out[i]["meta"][k] = res
    return out


def model_meta_errors(r):
    """-> list of (change index, kind, line, col) the model predicts for the metavariable sections"""
    errs = []
    for k in sorted(r["meta"]):
        res = r["meta"][k]
        if res[0] != "result":
            continue
        pe = vlib.field(res, "parse-errors")
        for e, l, c in pe:
            errs.append((k, "parse", e[0], int(l), int(c)))
        for e, l, c in vlib.field(res, "compile-errors"):
            errs.append((k, "compile", e[0], int(l), int(c)))
    return errs


def reported_positions(errtext):
    return [(m.group(1), int(m.group(2)), int(m.group(3))) for m in ERRPOS.finditer(errtext)]
