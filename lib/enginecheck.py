"""Shared body of the engine checks (C01-C05): run cases through the implementation and the
extracted Coq engine model, project what the property constrains, report."""
import json
import vlib, enginecorr
from enginecorr import canon, diff_paths, show
from vlib import parse_sx, unb64

CORR = "corr:engine (Model/{Match,Replace,FileEngine,Program}.v vs internal/engine through patch.File.Apply)"


def under(path, roots):
    return any(path == r or path.startswith(r + "/") for r in roots)


def analyse(o):
    """-> dict(model_sites, impl_sites, extra, missing, content) for a result of enginecorr.run"""
    r, m = o["impl"], o["model"]
    it0 = canon(parse_sx(r["in_tree"]))
    mt = o.get("mtree")
    it = o.get("itree")
    if mt is None or it is None:
        return None
    ms = diff_paths(it0, mt, limit=500)
    is_ = diff_paths(it0, it, limit=500)
    extra = [p for p in is_ if not under(p, ms) and not any(under(q, [p]) for q in ms)]   # impl changed, model did not
    missing = [p for p in ms if not under(p, is_) and not any(under(q, [p]) for q in is_)]  # model changed, impl did not
    return {"model_sites": ms, "impl_sites": is_, "extra": extra, "missing": missing}


def sub_at(tree, path):
    """subtree of a canonical tree at a diff path"""
    sc = enginecorr.schema()
    cur = tree
    if path in ("", "/"):
        return cur
    for seg in path.strip("/").split("/"):
        while cur[0] in ("ptr", "iface"):
            cur = cur[2]
        if seg.startswith("["):
            cur = cur[2 + int(seg[1:-1])]
        else:
            fn = sc["fields"].get(int(cur[1]), [])
            cur = cur[2 + fn.index(seg)]
    return cur


def report(ck, name, pair, o, projection, meta=None):
    """projection in {'sites', 'content', 'frame', 'any'}; returns True if the case was judged"""
    pn, ps, fn, fs = pair
    r = o["impl"]
    rep = {"case": name, "patch": ps.decode("utf-8", "replace"), "file": fs.decode("utf-8", "replace"), "meta": meta,
           "gopatch_output": unb64(r["out"]).decode("utf-8", "replace") if r.get("out") else None,
           "steps_gopatch": o.get("isteps"), "steps_model": o.get("msteps")}
    if o["skipped"]:
        ck.tally("outcome", "skipped: " + o["skipped"][:40])
        return False
    if not o["diffs"]:
        ck.tally("outcome", "agree:" + ",".join(o.get("isteps") or ["-"]))
        return True
    atoms = r.get("atoms") or []
    a = analyse(o) if o.get("mtree") is not None else None
    if a is None:
        # per-change outcomes differ (match / no match / error)
        what = "; ".join(o["diffs"][:2])
        if projection in ("sites", "any"):
            ck.violation("gopatch and the proved matcher disagree on whether the change applies: %s" % what, rep)
        else:
            ck.mismatch("engine model and gopatch disagree: %s" % what, rep, CORR)
        return True
    rep["model_sites"], rep["gopatch_sites"] = a["model_sites"][:10], a["impl_sites"][:10]
    it0 = canon(parse_sx(r["in_tree"]))
    if a["extra"] or a["missing"]:
        for p in a["extra"][:2]:
            rep.setdefault("details", []).append({"path": p, "before": show(sub_at(it0, p), atoms), "after_gopatch": show(sub_at(o["itree"], p), atoms)})
        for p in a["missing"][:2]:
            rep.setdefault("details", []).append({"path": p, "before": show(sub_at(it0, p), atoms), "after_model": show(sub_at(o["mtree"], p), atoms)})
        if projection in ("sites", "any"):
            if a["extra"]:
                ck.violation("code that is not an instance of the '-' pattern (by the proved matcher) was rewritten at %s" % a["extra"][:3], rep)
            else:
                ck.violation("an instance of the '-' pattern (not inside another rewritten instance) was not rewritten at %s" % a["missing"][:3], rep)
        elif projection == "frame" and a["extra"]:
            ck.violation("code outside the rewritten fragments changed at %s" % a["extra"][:3], rep)
        else:
            ck.mismatch("engine model and gopatch disagree on the rewritten sites: extra %s missing %s" % (a["extra"][:3], a["missing"][:3]), rep, CORR)
        return True
    # same sites, different content
    paths = diff_paths(o["mtree"], o["itree"])
    for p in paths[:2]:
        try:
            rep.setdefault("details", []).append({"path": p, "model": show(sub_at(o["mtree"], p), atoms), "gopatch": show(sub_at(o["itree"], p), atoms)})
        except Exception:
            pass
    imports_differ = any("imports differ" in d for d in o["diffs"])
    if paths and projection in ("content", "any"):
        ck.violation("the code written at a rewritten site is not the '+' pattern instantiated with the captured code (at %s)" % paths[:3], rep)
    elif paths and projection == "frame" and not any(under(p, a["model_sites"]) for p in paths):
        ck.violation("code outside the rewritten fragments changed at %s" % paths[:3], rep)
    elif paths or imports_differ:
        ck.mismatch("engine model and gopatch disagree: %s" % "; ".join(o["diffs"][:2]), rep, CORR)
    return True
