"""Shared body of the engine checks (C01-C05): run cases through the implementation and the
extracted Coq engine model, project what the property constrains, report."""
import json
import vlib, enginecorr
from enginecorr import canon, diff_paths, show
from vlib import parse_sx, unb64

CORR = "corr:engine (Model/{Match,Replace,FileEngine,Program}.v vs internal/engine through patch.File.Apply)"


def under(path, roots):
    return any(path == r or path.startswith(r + "/") for r in roots)


def analyse(o):
    """-> dict(model_sites, impl_sites, extra, missing, content) for a result of enginecorr.run"""
    r, m = o["impl"], o["model"]
    it0 = canon(parse_sx(r["in_tree"]))
    mt = o.get("mtree")
    it = o.get("itree")
    if mt is None or it is None:
        return None
    ms = diff_paths(it0, mt, limit=500)
    is_ = diff_paths(it0, it, limit=500)
    extra = [p for p in is_ if not under(p, ms) and not any(under(q, [p]) for q in ms)]   # impl changed, model did not
    missing = [p for p in ms if not under(p, is_) and not any(under(q, [p]) for q in is_)]  # model changed, impl did not
    return {"model_sites": ms, "impl_sites": is_, "extra": extra, "missing": missing}


def sub_at(tree, path):
    """subtree of a canonical tree at a diff path"""
    sc = enginecorr.schema()
    cur = tree
    if path in ("", "/"):
        return cur
    for seg in path.strip("/").split("/"):
        while cur[0] in ("ptr", "iface"):
            cur = cur[2]
        if seg.startswith("["):
            cur = cur[2 + int(seg[1:-1])]
        else:
            fn = sc["fields"].get(int(cur[1]), [])
            cur = cur[2 + fn.index(seg)]
    return cur


import re as _re
_STMT = _re.compile(r"^(.*/(?:List|Decls|Body|Specs)/\[\d+\])")


def lift(path):
    """the enclosing statement / declaration / clause element of a path"""
    best = None
    for m in _re.finditer(r"/(?:List|Decls|Body|Specs)/\[\d+\]", path):
        best = path[:m.end()]
    return best if best is not None else (path.rsplit("/", 1)[0] if "/" in path.strip("/") else path)


def is_subsequence(xs, ys):
    it = iter(ys)
    return all(any(x == y for y in it) for x in xs)


def kept_statements_lost(o, it0):
    """for every statement list the model changed: the statements the model keeps from the input must
    reappear, in order, in gopatch's list"""
    bad = []
    def lists(t, path=""):
        # yield (path, elements) for every slice in the canonical tree
        k = t[0]
        if k == "slice":
            yield path, t[2:]
            for j, x in enumerate(t[2:]):
                yield from lists(x, path + "/[%d]" % j)
        elif k in ("ptr", "iface"):
            yield from lists(t[2], path)
        elif k == "struct":
            fn = enginecorr.schema()["fields"].get(int(t[1]), [])
            for j, x in enumerate(t[2:]):
                yield from lists(x, path + "/" + (fn[j] if j < len(fn) else str(j)))
    inl = dict(lists(it0))
    ml = dict(lists(o["mtree"]))
    il = dict(lists(o["itree"]))
    for path, s_el in inl.items():
        if not (path.endswith("/List") or path.endswith("/Body") or path.endswith("/Decls")):
            continue
        m_el, i_el = ml.get(path), il.get(path)
        if m_el is None or i_el is None or m_el == i_el:
            continue
        kept = [x for x in m_el if x in s_el]
        if not is_subsequence(kept, i_el):
            bad.append(path)
    return bad


def report(ck, name, pair, o, projection, meta=None):
    """projection in {'sites', 'content', 'frame', 'any'}; returns True if the case was judged"""
    pn, ps, fn, fs = pair
    r = o["impl"]
    rep = {"case": name, "patch": ps.decode("utf-8", "replace"), "file": fs.decode("utf-8", "replace"), "meta": meta,
           "gopatch_output": unb64(r["out"]).decode("utf-8", "replace") if r.get("out") else None,
           "steps_gopatch": o.get("isteps"), "steps_model": o.get("msteps")}
    if o["skipped"]:
        if o["skipped"].startswith("harness panic"):
            ck.violation("loading the patch or applying it through the library panics or does not return: %s" % o["skipped"][15:260].replace("\n", " "), rep)
            return True
        if o["skipped"].startswith("patch rejected") and (meta or {}).get("must_parse"):
            ck.violation("a hand-written, valid patch is rejected: %s" % o["skipped"][16:200], rep)
            return
        if o["skipped"].startswith("output does not print/parse") and (meta or {}).get("must_parse"):
            ck.violation("the rewritten file does not print or parse (%s) although the instantiated '+' pattern is admissible at "
                         "every site of this input" % o["skipped"][29:150], rep)
            return True
        ck.tally("outcome", "skipped: " + o["skipped"][:40])
        return False
    if not o["diffs"]:
        ck.tally("outcome", "agree:" + ",".join(o.get("isteps") or ["-"]))
        return True
    if o.get("cli_differs"):
        rep["binary_output"] = (o.get("cli_output") or b"").decode("utf-8", "replace")
        ck.violation("command line and library disagree: %s" % o["cli_differs"], rep)
        return True
    if o.get("api_swallowed"):
        ck.violation("a change of the patch fails on this file (%s) but the library (patch.File.Apply) returns success: neither a rewrite "
                     "nor a diagnostic" % o["api_swallowed"][:200], rep)
        return True
    if o.get("api_failed"):
        ck.violation("the library (patch.File.Apply) reports an error on an input every change of which applies: %s" % o["api_failed"][:200], rep)
        return True
    atoms = r.get("atoms") or []
    a = analyse(o) if o.get("mtree") is not None else None
    if a is None:
        what = "; ".join(o["diffs"][:2])
        if projection in ("sites", "any"):
            ck.violation("gopatch and the proved matcher disagree on whether the change applies: %s" % what, rep)
        elif projection == "frame" and "ok" in (o.get("isteps") or []) and "ok" not in (o.get("msteps") or []):
            ck.violation("the file was changed although no change applies to it (by the proved matcher and guards): %s" % what, rep)
        else:
            ck.mismatch("engine model and gopatch disagree: %s" % what, rep, CORR)
        return True
    it0 = canon(parse_sx(r["in_tree"]))
    D = diff_paths(o["mtree"], o["itree"])
    region_m = set(lift(p) for p in a["model_sites"])
    region_i = set(lift(p) for p in a["impl_sites"])
    extra_r = sorted(region_i - region_m)
    missing_r = sorted(region_m - region_i)
    d_in = [p for p in D if lift(p) in region_m]
    d_out = [p for p in D if lift(p) not in region_m]
    rep["model_changed"], rep["gopatch_changed"], rep["differences"] = sorted(region_m)[:10], sorted(region_i)[:10], D[:6]
    for p in D[:3]:
        try:
            rep.setdefault("details", []).append({"path": p, "input": show(sub_at(it0, p), atoms), "model": show(sub_at(o["mtree"], p), atoms),
                                                  "gopatch": show(sub_at(o["itree"], p), atoms)})
        except Exception:
            pass
    imports_differ = any("imports differ" in d for d in o["diffs"])
    judged = False
    if projection in ("sites", "any") and (extra_r or missing_r):
        judged = True
        if extra_r:
            ck.violation("code that is not an instance of the '-' pattern (by the proved matcher) was rewritten in %s" % extra_r[:3], rep)
        else:
            ck.violation("an instance of the '-' pattern (not inside another rewritten instance) was not rewritten in %s" % missing_r[:3], rep)
    if projection == "content" and missing_r and not judged:
        judged = True
        ck.violation("a site was left unchanged although the instantiated replacement fits there (%s)" % missing_r[:3], rep)
    if projection in ("content", "any") and d_in and not judged:
        judged = True
        ck.violation("the code written at a rewritten site is not the '+' pattern instantiated with the captured code (at %s)" % d_in[:3], rep)
    if projection in ("frame", "any") and not judged:
        lost = kept_statements_lost(o, it0)
        if d_out or extra_r or lost:
            judged = True
            ck.violation("code outside the rewritten fragments changed (%s)" % ((d_out or extra_r or lost)[:3],), rep)
    if not judged and (D or imports_differ):
        ck.mismatch("engine model and gopatch disagree: %s" % "; ".join(o["diffs"][:2]), rep, CORR)
    return True
