"""Pinned corpus: the repository's golden txtar cases (copied at the pinned commit) and
hand-written Go sources used as surrounding code."""
import os, re
VERIF = os.path.dirname(os.path.dirname(os.path.abspath(__file__)))
TD = os.path.join(VERIF, "corpus", "testdata")


def parse_txtar(data):
    files, cur, buf = {}, None, []
    for line in data.split(b"\n"):
        m = re.match(rb"^-- (.+) --\s*$", line)
        if m:
            if cur is not None:
                files[cur] = b"\n".join(buf) + b"\n"
            cur, buf = m.group(1).decode().strip(), []
        elif cur is not None:
            buf.append(line)
    if cur is not None:
        # drop the final empty element produced by the trailing newline
        if buf and buf[-1] == b"":
            buf = buf[:-1]
        files[cur] = b"\n".join(buf) + (b"\n" if buf else b"")
    return files


def golden():
    """-> list of dict(name, patches=[(name, bytes)], inputs={name: bytes}, outputs={name: bytes})"""
    out = []
    for name in sorted(os.listdir(TD)):
        p = os.path.join(TD, name)
        if not os.path.isfile(p) or name == "README.md":
            continue
        files = parse_txtar(open(p, "rb").read())
        patches, inputs, outputs = [], {}, {}
        for fn, data in files.items():
            if fn.endswith(".patch"):
                m = re.match(rb"^=>\s*(\S+)", data)
                if m:
                    data = open(os.path.join(VERIF, "corpus", m.group(1).decode()), "rb").read()
                patches.append((fn.replace("/", "_"), data))
            elif fn.endswith(".in.go"):
                inputs[fn[:-len(".in.go")] + ".go"] = data
            elif fn.endswith(".out.go"):
                outputs[fn[:-len(".out.go")] + ".go"] = data
        if patches and inputs:
            out.append({"name": name, "patches": patches, "inputs": inputs, "outputs": outputs})
    return out


# ---- Go sources in which little or nothing matches: non-canonical layouts
ODD_SOURCES = {
    "notgofmt.go": b"package   p\nimport(\"fmt\"\n\"os\")\nfunc  main( ){fmt.Println( \"x\" ,os.Args)\n   if true{return}}\n",
    "crlf.go": b"package p\r\n\r\n// comment\r\nfunc f() {\r\n\tprintln(\"a\")\r\n}\r\n",
    "buildtag.go": b"//go:build linux && !windows\n// +build linux,!windows\n\n// Package p does things.\npackage p\n\nimport \"C\"\n\nfunc f() {}\n",
    "oddcomments.go": b"/* leading */ package /* mid */ p /* after */\n\n/*\n multi\n*/\nfunc f( /* in params */ ) { /* body */\n\t// eol\n}\n// trailing comment without newline",
    "unsorted_imports.go": b"package p\n\nimport (\n\t\"os\"\n\t\"fmt\"\n\n\t\"bytes\"\n)\n\nvar _ = fmt.Sprint\nvar _ = os.Args\nvar _ = bytes.NewReader\n",
    "rawimports.go": b"package p\n\nimport `os`\nimport (\n\tf `fmt`\n\t\"strings\"\n\t_ `embed`\n)\n\nvar _ = f.Sprint(os.Args, strings.ToUpper(``))\n",
    "rawstring.go": b"package p\n\nvar s = `line1\n   line2\t\n`\n\ntype T struct {\n\tA int `json:\"a\"`\n\tB, C string\n}\n",
    "generics.go": b"package p\n\ntype L[T any] struct{ next *L[T]; v T }\n\nfunc Map[T, U any](xs []T, f func(T) U) []U {\n\tvar out []U\n\tfor _, x := range xs { out = append(out, f(x)) }\n\treturn out\n}\n",
    "labels.go": b"package p\n\nfunc f(ch chan int) {\nouter:\n\tfor {\n\t\tselect {\n\t\tcase v := <-ch:\n\t\t\tif v > 0 { continue outer }\n\t\t\tbreak outer\n\t\tdefault:\n\t\t\tgoto done\n\t\t}\n\t}\ndone:\n\treturn\n}\n",
    "empty.go": b"package p\n",
    "no_trailing_newline.go": b"package p\n\nfunc g() int { return 1 }",
    "semicolons.go": b"package p; import \"fmt\"; func h() { fmt.Println(1); fmt.Println(2) }\n",
}
