"""Case generators for the engine checks (C01-C05, C09-C11): golden pairs, token-level
mutations of golden inputs (near-misses around real instances), and a small grammar of
pattern families planted into slot templates."""
import re
import corpus

TOKEN = re.compile(r"""
    (?P<ws>\s+) | (?P<cmt>//[^\n]*|/\*.*?\*/) | (?P<str>"(?:[^"\\\n]|\\.)*"|`[^`]*`|'(?:[^'\\\n]|\\.)*') |
    (?P<num>\d[\w.]*) | (?P<id>[A-Za-z_]\w*) |
    (?P<op><<=|>>=|&\^=|\.\.\.|&&|\|\||<-|\+\+|--|==|!=|<=|>=|:=|\+=|-=|\*=|/=|%=|&=|\|=|\^=|<<|>>|&\^|[-+*/%&|^<>=!(){}\[\],;.:~])
""", re.X | re.S)

KEYWORDS = set("break case chan const continue default defer else fallthrough for func go goto if import interface map package range return select struct switch type var".split())


def tokens(src):
    out = []
    for m in TOKEN.finditer(src):
        out.append((m.lastgroup, m.group()))
    return out


def golden_pairs(single_patch_only=True):
    pairs = []
    for c in corpus.golden():
        if single_patch_only and len(c["patches"]) != 1:
            continue
        for fn, d in sorted(c["inputs"].items()):
            pairs.append((c["name"] + "/" + fn, c["patches"][0][0], c["patches"][0][1], fn, d))
    return pairs


OPS = ["==", "!=", "<", ">", "+", "-", "*", "&&", "||"]


def mutate_go(rng, src):
    """one token-level mutation of a Go source (str) -> (kind, new source) or None"""
    toks = tokens(src)
    idx = [i for i, (k, t) in enumerate(toks) if k in ("id", "num", "str", "op") and not (k == "id" and t in KEYWORDS)]
    # leave the package clause alone
    seen_pkg = False
    cand = []
    for i in idx:
        cand.append(i)
    if not cand:
        return None
    for _ in range(20):
        i = rng.choice(cand)
        k, t = toks[i]
        new = list(toks)
        if k == "id":
            if i > 0 and toks[i - 1][1] == "package" or (i > 1 and toks[i - 2][1] == "package"):
                continue
            kind = "name"
            new[i] = (k, rng.choice([t + "2", "z" + t, t[:-1] or "q", "other"]))
        elif k == "num":
            kind = "literal"
            new[i] = (k, str((int(t) if t.isdigit() else 0) + rng.choice([1, 7])))
        elif k == "str":
            if t.startswith("`") or (i > 0 and toks[i - 1][1] in ("import", "(")) and False:
                continue
            kind = "literal"
            new[i] = (k, t[:-1] + "x" + t[-1]) if len(t) >= 2 else (k, t)
        else:
            if t in OPS:
                kind = "operator"
                new[i] = (k, rng.choice([o for o in OPS if o != t]))
            elif t == ",":
                # extra argument / element
                kind = "extra-element"
                new[i] = (k, ", extra0,")
            elif t == ")" and i > 0 and toks[i - 1][0] in ("id", "num", "str"):
                kind = rng.choice(["extra-argument", "variadic"])
                new[i] = (k, ", extra1)" if kind == "extra-argument" else "...)")
            elif t == "*":
                kind = "pointer-star"
                new[i] = (k, "")
            elif t == ":=":
                kind = "define-vs-assign"
                new[i] = (k, "=")
            elif t == "<-":
                kind = "chan-direction"
                new[i] = (k, "")
            elif t == "=" and i > 1 and toks[i - 2][1] not in ("var", "const"):
                continue
            else:
                continue
        return kind, "".join(t for _, t in new)
    return None


# ---------------------------------------------------------------- grammar
FILLERS = ["a", "b.c", "f(1)", "x + y", "\"s\"", "[]int{1, 2}", "func() {}", "*q", "m[k]", "v.(T)", "g(h(2))", "-n", "<-ch", "a.b.c()", "T{A: 1}", "nil"]
IDENTS = ["alpha", "beta", "gamma", "delta", "foo", "foo2", "Foo", "_x"]

# expression pattern families: (name, meta, minus, plus, holes) ; {x} {y} expression metavars, {f} identifier metavar, {...} dots
EXPR_FAMILIES = [
    ("unwrap-lone-mv", "var x expression", "traced(x)", "x"),
    ("dup-around-dots", "var x expression", "check(..., want(x), ..., got(x))", "checkSame(x)"),
    ("dup-binary-same", "var x expression", "x - x", "zero"),
    ("dup-method", "var x expression", "x.Equal(x)", "always"),
    ("call-1", "var x expression", "foo(x)", "bar(x)"),
    ("call-swap", "var x, y expression", "foo(x, y)", "foo(y, x)"),
    ("call-dup", "var x expression", "foo(x, x)", "once(x)"),
    ("method-to-func", "var x expression", "x.Close()", "closeIt(x)"),
    ("binary-zero", "var x expression", "x + 0", "x"),
    ("neq-nil", "var x expression", "x != nil", "isSet(x)"),
    ("dots-all", "", "foo(...)", "bar(...)"),
    ("dots-tail", "var x expression", "foo(x, ...)", "bar(..., x)"),
    ("dots-mid", "", "foo(first, ..., last)", "foo(last, ..., first)"),
    ("ident-mv", "var f identifier", "f(ctxOld)", "f(ctxNew)"),
    ("complit", "var x expression", "T{x, ...}", "T2{...}"),
    ("variadic", "var x expression", "foo(x...)", "bar(x...)"),
    ("unary", "var x expression", "<-x", "recv(x)"),
    ("typeassert", "var x expression", "x.(Old)", "x.(New)"),
    ("index", "var x, y expression", "x[y]", "at(x, y)"),
    ("funclit", "", "func() { ... }", "func() { ...; done() }"),
    ("selector", "var x identifier", "pkg.x", "pkg2.x"),
    ("literal", "", "foo(1, \"a\")", "foo(2, \"b\")"),
    ("drop-mv", "var x, y expression", "pick(x, y)", "x"),
    ("star", "var x expression", "*x", "deref(x)"),
    ("slice3", "var x, y expression", "x[:y]", "take(x, y)"),
    ("keyvalue", "var x expression", "T{Key: x}", "T{Key2: x}"),
]

SLOTS = [
    ("call-arg", "func h() {{ g({e}) }}"),
    ("stmt", "func h() {{ {e} }}"),
    ("assign-rhs", "func h() {{ v := {e}; _ = v }}"),
    ("return", "func h() T {{ return {e} }}"),
    ("selector-base", "func h() {{ ({e}).Z() }}"),
    ("complit-elem", "var v = []T{{ {e} }}"),
    ("complit-value", "var v = M{{ K: {e} }}"),
    ("case-expr", "func h() {{ switch {{ case {e} == q: }} }}"),
    ("go-stmt", "func h() {{ go func() {{ {e} }}() }}"),
    ("defer-arg", "func h() {{ defer g({e}) }}"),
    ("closure", "var fn = func() {{ {e} }}"),
    ("if-init", "func h() {{ if v := {e}; v != nil {{ }} }}"),
    ("if-cond-arg", "func h() {{ if ok({e}) {{ }} }}"),
    ("nested-block", "func h() {{ {{ {{ {e} }} }} }}"),
    ("for-body", "func h() {{ for i := 0; i < n; i++ {{ {e} }} }}"),
    ("range-expr", "func h() {{ for range wrap({e}) {{ }} }}"),
    ("select-comm", "func h() {{ select {{ case ch <- wrap({e}): default: }} }}"),
    ("index", "func h() {{ _ = arr[idx({e})] }}"),
    ("var-decl", "var top = wrap({e})"),
    ("method", "func (r *R) m() {{ {e} }}"),
    ("generic", "func G[T any](t T) {{ {e} }}"),
    ("label", "func h() {{ L: for {{ {e}; break L }} }}"),
    ("binary-operand", "func h() {{ _ = 1 + cnt({e}) }}"),
    ("struct-tag-neighbour", "type S struct {{ A int `json:\"a\"` }}\nfunc h() {{ {e} }}"),
    # the instance IS the call of a go/defer statement (a slot typed *ast.CallExpr)
    ("go-call", "func h() {{ go {e} }}"),
    ("defer-call", "func h() {{ defer {e} }}"),
    # the instance is the left-most part of a bigger expression that starts at the same position
    ("left-of-binary", "func h() {{ _ = {e} - tail0 }}"),
    ("left-of-binary-same", "func h() {{ _ = {e} == {e} }}"),
    ("left-of-selector", "func h() {{ {e}.M(1) }}"),
    ("left-of-index", "func h() {{ _ = {e}[0] }}"),
    ("left-of-call", "func h() {{ {e}(7) }}"),
    ("left-of-assert", "func h() {{ _ = {e}.(T) }}"),
]


def instantiate(rng, pat, binding=None):
    """replace metavariables x,y,f and '...' in a pattern text by concrete code"""
    binding = dict(binding or {})
    def mv(name, pool):
        if name not in binding:
            binding[name] = rng.choice(pool)
        return binding[name]
    out = pat
    out = re.sub(r"\bx\b", lambda m: "(" + mv("x", FILLERS) + ")" if False else mv("x", FILLERS), out)
    out = re.sub(r"\by\b", lambda m: mv("y", FILLERS), out)
    out = re.sub(r"\bf\b(?=\()", lambda m: mv("f", IDENTS), out)
    # elements of the pattern that carry a metavariable, e.g. want(x): usable as decoys with another binding
    carriers = re.findall(r"\b\w+\((?:x|y)\)", pat)
    def dots(m):
        n = rng.choice([0, 1, 1, 2, 3])
        items = [rng.choice(FILLERS) for _ in range(n)]
        if carriers and rng.random() < 0.6:
            c = rng.choice(carriers)
            other = rng.choice([f for f in FILLERS if f != binding.get("x")])
            items.insert(rng.randint(0, len(items)), re.sub(r"\((?:x|y)\)", "(" + other.replace("\\", "\\\\") + ")", c))
        return ", ".join(items)
    # '...' inside a block stands for statements
    out = re.sub(r"\{ \.\.\. \}", lambda m: "{ " + "; ".join(rng.choice(["s1()", "s2(3)", "v = 4"]) for _ in range(rng.choice([0, 1, 2]))) + " }", out)
    out = re.sub(r"\.\.\.(?!\))|\.\.\.(?=\))", lambda m: dots(m) if True else "", out) if "x..." not in pat else out
    # clean up empty argument leftovers: "foo(, a)" "foo(a, )" "(, )"
    out = re.sub(r"\(\s*,\s*", "(", out)
    out = re.sub(r",\s*,", ",", out)
    out = re.sub(r",\s*\)", ")", out)
    out = re.sub(r"\{\s*,\s*", "{", out)
    out = re.sub(r",\s*\}", "}", out)
    return out, binding


def parenthesize(e):
    return e


def grammar_case(rng, k):
    """-> (name, patch bytes, file bytes, meta dict)"""
    fam = EXPR_FAMILIES[k % len(EXPR_FAMILIES)]
    name, meta, minus, plus = fam
    patch = "@@\n%s\n@@\n-%s\n+%s\n" % (meta, minus, plus) if meta else "@@\n@@\n-%s\n+%s\n" % (minus, plus)
    decls = []
    planted = []
    nslots = rng.randint(2, 6)
    for j in range(nslots):
        sname, tpl = rng.choice(SLOTS)
        inst, b = instantiate(rng, minus)
        kind = "instance"
        code = inst
        r = rng.random()
        if r < 0.4:
            mm = mutate_go(rng, inst)
            if mm:
                kind, code = "near-miss:" + mm[0], mm[1]
        elif r < 0.5 and "x" in meta:
            # nested instance inside an instance (only the outer one need be rewritten)
            inner, _ = instantiate(rng, minus)
            code, _ = instantiate(rng, minus, {"x": inner})
            kind = "nested-instance"
        # a statement slot needs a call-like expression statement; keep expression statements legal
        if sname in ("stmt", "go-stmt", "closure", "nested-block", "for-body", "method", "generic", "label", "struct-tag-neighbour") \
                and not re.match(r"^[\w.()\[\]*]+\(.*\)$", code.strip()):
            code = "use(%s)" % code
        body = tpl.format(e=code)
        body = re.sub(r"\bh\b", "h%d" % j, body).replace("var v =", "var v%d =" % j).replace("var fn =", "var fn%d =" % j) \
            .replace("var top =", "var top%d =" % j).replace("func G[", "func G%d[" % j).replace("type S struct", "type S%d struct" % j) \
            .replace("func (r *R) m()", "func (r *R) m%d()" % j)
        decls.append(body)
        planted.append({"slot": sname, "kind": kind, "code": code})
    src = "package p\n\n" + "\n\n".join(decls) + "\n"
    return ("grammar:%s#%d" % (name, k), patch.encode(), src.encode(), {"family": name, "planted": planted})


# ---------------------------------------------------------------- statement-list patterns
# (name, meta, patch body lines)  -- lines already carry their '-', '+' or ' ' prefix
STMT_FAMILIES = [
    ("grow", "", ["-foo()", "+bar()", "+baz()"]),
    ("grow-mv", "var x expression", ["-foo(x)", "+pre(x)", "+foo(x)", "+post(x)"]),
    ("shrink", "", ["-first()", "-second()", "+both()"]),
    ("elide-middle", "var x identifier", ["-x := mk()", " ...", "-use(x)", "+use(mk())"]),
    ("lock-unlock", "var x expression", ["-lock(x)", "+acquire(x)", " ...", "-unlock(x)", "+release(x)"]),
    ("ctx-then-change", "var x expression", [" before(x)", "-foo(x)", "+bar(x)", "+baz()"]),
    ("if-block", "", [" if cond {", "   ...", "-  foo()", "+  bar()", "+  baz()", " }"]),
    ("delete", "", ["-foo()", "-bar()"]) ,
]
STMT_POOL = ["s1()", "s2(3)", "v = 4", "keep1()", "keep2()", "log(\"x\")", "i++", "if q { w() }", "for range ch { z() }", "go g()", "defer d()",
             "{ inner() }", "x1 := 5; _ = x1", "return"]


def stmt_case(rng, k):
    name, meta, lines = STMT_FAMILIES[k % len(STMT_FAMILIES)]
    patch = "@@\n%s\n@@\n%s\n" % (meta, "\n".join(lines)) if meta else "@@\n@@\n%s\n" % "\n".join(lines)
    minus = [l[1:].strip() for l in lines if l[:1] in "- "]
    funcs = []
    for j in range(rng.randint(2, 5)):
        filler = rng.choice(FILLERS[:6] + ["p", "q.r"])
        minimal = rng.random() < 0.3       # the container holds exactly the instance: every elision stands for nothing
        inst = []
        for m in minus:
            if m == "...":
                inst += [rng.choice(STMT_POOL[:9]) for _ in range(0 if minimal else rng.randint(0, 3))]
            elif m in ("if cond {", "}"):
                inst.append(m)
            else:
                t = re.sub(r"\bx\b", filler if "identifier" not in meta else rng.choice(["tmp", "val"]), m)
                if rng.random() < 0.25:
                    mm = mutate_go(rng, t)
                    if mm:
                        t = mm[1]
                inst.append(t)
        before = [rng.choice(STMT_POOL[:11]) for _ in range(0 if minimal else rng.randint(0, 3))]
        # a decoy: the first pattern statement with another binding, before the real instance
        if "x" in meta and rng.random() < 0.5 and not minimal:
            first = next((m for m in minus if re.search(r"\bx\b", m)), None)
            if first and "identifier" not in meta:
                before.append(re.sub(r"\bx\b", rng.choice(["decoy1", "d.e"]), first))
        after = [rng.choice(STMT_POOL) for _ in range(0 if minimal else rng.randint(0, 3))]
        body = before + inst + after
        wrap = rng.choice(["func h%d() {\n\t%s\n}", "func h%d() {\n\tif ok {\n\t%s\n\t}\n}", "func h%d() {\n\tswitch v {\n\tcase 1:\n\t%s\n\t}\n}",
                           "func h%d() {\n\tselect {\n\tcase <-c:\n\t%s\n\t}\n}", "func h%d() {\n\tfor {\n\t%s\n\t}\n}",
                           "func h%d() {\n\tfn := func() {\n\t%s\n\t}\n\tfn()\n}", "func h%d() {\n\t{\n\t%s\n\t}\n\t%s\n}"])
        text = "\n\t".join(body)
        funcs.append(wrap % ((j, text, text) if wrap.count("%s") == 2 else (j, text)))
    src = "package p\n\n" + "\n\n".join(funcs) + "\n"
    return ("stmts:%s#%d" % (name, k), patch.encode(), src.encode(), {"family": name})


# ---------------------------------------------------------------- several changes in one patch
CHAINS = [
    ["@@\nvar x, y expression\n@@\n-oldPair(x, y)\n+newPair(norm(x), norm(y))\n", "@@\nvar v expression\n@@\n-norm(v)\n+v\n"],
    ["@@\nvar x expression\n@@\n-f0(x)\n+f1(x, x)\n", "@@\nvar a, b expression\n@@\n-f1(a, b)\n+f2(b)\n", "@@\n@@\n-never()\n+ever()\n"],
    ["@@\n@@\n-foo()\n+bar()\n+baz()\n", "@@\n@@\n-baz()\n+qux()\n"],
    ["@@\nvar x expression\n@@\n-wrap(x)\n+x\n", "@@\nvar x expression\n@@\n-wrap(x)\n+x\n"],
    ["@@\nvar f identifier\n@@\n-f(old)\n+f(mid)\n", "@@\nvar g identifier\n@@\n-g(mid)\n+g(new1, new2)\n"],
]


def chain_case(rng, k):
    ch = CHAINS[k % len(CHAINS)]
    patch = "\n".join(ch)
    stm = []
    for j in range(rng.randint(2, 5)):
        a, b = rng.choice(FILLERS[:8]), rng.choice(FILLERS[:8])
        stm.append(rng.choice(["_ = oldPair(%s, %s)" % (a, b), "_ = f0(%s)" % a, "foo()", "_ = wrap(wrap(%s))" % a, "alpha(old)", "beta(old)",
                               "_ = norm(%s)" % b, "_ = f1(%s, %s)" % (a, b), "baz()", "_ = oldPair(norm(%s), %s)" % (a, b)]))
    src = "package p\n\nfunc h() {\n\t" + "\n\t".join(stm) + "\n}\n"
    return ("chain#%d" % k, patch.encode(), src.encode(), {"family": "chain%d" % (k % len(CHAINS))})


# ---------------------------------------------------------------- declaration-level patterns (with optional import edits)
DECL_FAMILIES = [
    # (name, meta, patch body lines, instance templates, near-miss templates)
    ("func-sig", "var f identifier", ["-func f() error {", "+func f(ctx Ctx) error {", "   ...", " }"],
     ["func %s() error {\n\tstep()\n\treturn nil\n}"], ["func %s() (error, bool) {\n\treturn nil, true\n}", "func %s(a int) error {\n\treturn nil\n}", "func (r R) %s() error {\n\treturn nil\n}"]),
    ("func-rename", "", ["-func oldName(x int) int {", "+func newName(x int) int {", "   ...", " }"],
     ["func oldName(x int) int {\n\treturn x\n}"], ["func oldName(x int64) int {\n\treturn 0\n}", "func oldName2(x int) int {\n\treturn x\n}", "func oldName(x, y int) int {\n\treturn x\n}"]),
    ("method-recv", "var m identifier\nvar t identifier", ["-func (s t) m() {", "+func (s *t) m() {", "   ...", " }"],
     ["func (s %s) Do() {\n\twork()\n}"], ["func (s *%s) Do() {\n\twork()\n}", "func (q %s) Do() {\n\twork()\n}", "func (s %s) Do() int {\n\treturn 1\n}"]),
    ("type-struct-field", "", [" type Config struct {", "   ...", "-  Timeout int", "+  Timeout time.Duration", "   ...", " }"],
     ["type Config struct {\n\tName string\n\tTimeout int\n\tRetries int\n}"], ["type Config struct {\n\tName string\n\tTimeout int64\n}", "type Config2 struct {\n\tTimeout int\n}",
      "type Config struct {\n\tName    string\n\ttimeout int\n}"]),
    ("var-value", "var v identifier", ["-var v = legacy()", "+var v = modern()"],
     ["var %s = legacy()"], ["var %s = legacy(1)", "var %s int = legacy()", "const %s = legacy()", "var %s, other = legacy(), 1"]),
    ("const-type", "var n identifier\nvar x expression", ["-const n int = x", "+const n int64 = x"],
     ["const %s int = 10"], ["const %s int32 = 10", "const %s = 10", "var %s int = 10"]),
    ("iface-method", "", [" type Store interface {", "   ...", "-  Get(k string) string", "+  Get(ctx Ctx, k string) string", "   ...", " }"],
     ["type Store interface {\n\tPut(k, v string)\n\tGet(k string) string\n}"], ["type Store interface {\n\tGet(k string) (string, error)\n}", "type Store2 interface {\n\tGet(k string) string\n}"]),
    ("func-results", "var f identifier", ["-func f() (int, error) {", "+func f() (int64, error) {", "   ...", " }"],
     ["func %s() (int, error) {\n\treturn 0, nil\n}"], ["func %s() (n int, err error) {\n\treturn\n}", "func %s() (int, int, error) {\n\treturn 0, 0, nil\n}"]),
]
DECL_IMPORT_EDITS = ["", "", "+import \"example.com/ctx\"\n\n", "-import \"os\"\n+import \"example.com/newos\"\n\n", " import \"os\"\n\n", "+import \"time\"\n+import c \"example.com/ctx\"\n\n"]
DECL_HEADS = ["package p\n\n", "package p\n\nimport \"os\"\n\n", "package p\n\nimport (\n\t\"bytes\"\n\t\"os\"\n)\n\n", "package p\n\nimport \"bytes\"\n\nimport \"os\"\n\n"]
DECL_FILL = ["func keepA() { os.Exit(0) }", "var keepB = []int{1, 2, 3}", "type keepC struct {\n\tX, Y int\n}", "func (k keepC) M() int { return k.X }",
             "const keepD = \"d\"", "func keepE[T any](x T) T { return x }", "var _ = bytes.NewReader"]


def decl_case(rng, k):
    name, meta, lines, insts, misses = DECL_FAMILIES[k % len(DECL_FAMILIES)]
    imp = DECL_IMPORT_EDITS[(k // len(DECL_FAMILIES)) % len(DECL_IMPORT_EDITS)]
    patch = "@@\n%s@@\n%s%s\n" % (meta + "\n" if meta else "", imp, "\n".join(lines))
    head = DECL_HEADS[(k // 3) % len(DECL_HEADS)]
    decls = []
    nm = iter(["Alpha", "Beta", "Gamma", "Delta", "Eps", "Zeta", "Eta", "Theta"])
    def fill(t):
        return t % next(nm) if "%s" in t else t
    for _ in range(rng.randint(1, 2)):
        decls.append(fill(rng.choice(insts)))
    for _ in range(rng.randint(0, 2)):
        decls.append(fill(rng.choice(misses)))
    # declarations also occur as statements: in function bodies, closures, goroutines
    if name in ("var-value", "const-type", "type-struct-field", "iface-method"):
        wraps = ["func local%d() {\n\t%s\n}", "var closure%d = func() {\n\t%s\n}", "func spawn%d() {\n\tgo func() {\n\t\t%s\n\t}()\n}",
                 "func ret%d() func() {\n\treturn func() {\n\t\t%s\n\t}\n}", "func deferred%d() {\n\tdefer func() {\n\t\tif true {\n\t\t\t%s\n\t\t}\n\t}()\n}"]
        for j in range(rng.randint(1, 3)):
            body = fill(rng.choice(insts if rng.random() < 0.7 else misses)).replace("\n", "\n\t")
            decls.append(rng.choice(wraps) % (j, body))
    decls += rng.sample(DECL_FILL, rng.randint(2, 5))
    rng.shuffle(decls)
    # declarations of one kind must not repeat verbatim (type Config twice does not matter to the parser)
    src = head + "\n\n".join(decls) + "\n"
    return ("decl:%s%s#%d" % (name, "+imports" if imp.strip() else "", k), patch.encode(), src.encode(), {"family": "decl:" + name})


# ---------------------------------------------------------------- hand-written shapes outside the generated families
# (name, patch, file): containers, for/range headers, field lists, labels, generics, methods, select/switch clauses
EXTRA_CASES = [
    ("for-dots-body", "@@\n@@\n for ... {\n-  foo()\n+  bar()\n   ...\n }\n",
     "package p\n\nfunc h() {\n\tfor i := 0; i < n; i++ {\n\t\tfoo()\n\t\trest()\n\t}\n\tfor k, v := range m {\n\t\tfoo()\n\t}\n\tfor {\n\t\tother()\n\t\tfoo()\n\t}\n\tfor cond() {\n\t\tfoo()\n\t}\n\tfor range ch {\n\t\tfoo()\n\t\tfoo()\n\t}\n\tif ok {\n\t\tfoo()\n\t}\n}\n"),
    ("for-dots-mv", "@@\nvar x expression\n@@\n for ... {\n-  use(x)\n+  used(x, x)\n }\n",
     "package p\n\nfunc h() {\n\tfor i := range xs {\n\t\tuse(i)\n\t}\n\tfor _, v := range ys {\n\t\tuse(v + 1)\n\t}\n\tfor j := 0; j < 3; j++ {\n\t\tuse(j)\n\t\tmore()\n\t}\n\tfor {\n\t\tuse(f())\n\t}\n}\n"),
    ("range-header", "@@\nvar k, v identifier\nvar m expression\n@@\n-for k, v := range m {\n+for v, k := range swap(m) {\n   ...\n }\n",
     "package p\n\nfunc h() {\n\tfor a, b := range table {\n\t\tuse(a, b)\n\t}\n\tfor a := range table {\n\t\tuse(a)\n\t}\n\tfor i, c := range pkg.Items() {\n\t\tuse(c)\n\t\tuse(i)\n\t}\n}\n"),
    ("case-clause", "@@\nvar x expression\n@@\n-handle(x)\n+handled(x)\n+log(x)\n",
     "package p\n\nfunc h(v int) {\n\tswitch v {\n\tcase 1:\n\t\thandle(v)\n\t\tnext()\n\tcase 2, 3:\n\t\tprev()\n\t\thandle(v + 1)\n\tdefault:\n\t\thandle(0)\n\t}\n\tselect {\n\tcase m := <-ch:\n\t\thandle(m)\n\tcase ch2 <- 1:\n\t\tother()\n\t\thandle(2)\n\tdefault:\n\t}\n}\n"),
    ("label-stmt", "@@\nvar l identifier\n@@\n l:\n for {\n-  break l\n+  return\n }\n",
     "package p\n\nfunc h() {\nouter:\n\tfor {\n\t\tbreak outer\n\t}\ninner:\n\tfor {\n\t\tbreak other\n\t}\n}\n"),
    ("params-dots", "@@\nvar f identifier\n@@\n-func f(ctx Context, ...) error {\n+func f(ctx Context, ...) (int, error) {\n   ...\n }\n",
     "package p\n\nfunc a(ctx Context, x int, y string) error {\n\treturn nil\n}\n\nfunc b(ctx Context) error {\n\treturn nil\n}\n\nfunc c(x int, ctx Context) error {\n\treturn nil\n}\n\nfunc (r R) d(ctx Context, z ...int) error {\n\treturn nil\n}\n"),
    ("results-dots", "@@\nvar f identifier\n@@\n-func f() (..., error) {\n+func f() (..., bool, error) {\n   ...\n }\n",
     "package p\n\nfunc a() (int, error) {\n\treturn 0, nil\n}\n\nfunc b() error {\n\treturn nil\n}\n\nfunc c() (int, string, error) {\n\treturn 0, \"\", nil\n}\n\nfunc d() (int, bool) {\n\treturn 0, false\n}\n"),
    ("struct-fields-dots", "@@\n@@\n type Config struct {\n   ...\n-  Debug bool\n   ...\n }\n",
     "package p\n\ntype Config struct {\n\tName  string\n\tDebug bool\n\tLevel int\n}\n\ntype Other struct {\n\tDebug bool\n}\n\nfunc h() {\n\ttype Config struct {\n\t\tDebug bool\n\t}\n}\n"),
    ("method-value", "@@\nvar x expression\nvar m identifier\n@@\n-x.m(ctx)\n+x.m(ctx, opts)\n",
     "package p\n\nfunc h() {\n\ta.Run(ctx)\n\tb.c.Stop(ctx)\n\tf().Go(ctx)\n\tg(ctx)\n\ta.Run(ctx2)\n\tdefer p.Close(ctx)\n}\n"),
    ("generic-call", "@@\nvar t, x expression\n@@\n-Map[t](x)\n+MapOf[t](x, nil)\n",
     "package p\n\nfunc h() {\n\t_ = Map[int](xs)\n\t_ = Map[[]string](f())\n\t_ = Map(xs)\n\t_ = Map[int, string](xs)\n}\n"),
    ("composite-fields", "@@\nvar x expression\n@@\n-Opts{Timeout: x}\n+Opts{Timeout: x, Retry: 3}\n",
     "package p\n\nvar a = Opts{Timeout: 5}\nvar b = Opts{Timeout: 5, Retry: 1}\nvar c = &Opts{Timeout: d()}\nvar e = []Opts{{Timeout: 1}, {Retry: 2}}\n"),
    ("if-else-chain", "@@\nvar x expression\n@@\n if x == nil {\n-  return nil\n+  return errNil\n }\n",
     "package p\n\nfunc h(p *T) error {\n\tif p == nil {\n\t\treturn nil\n\t}\n\tif p.q == nil {\n\t\treturn nil\n\t} else {\n\t\tuse(p)\n\t}\n\tif p != nil {\n\t\treturn nil\n\t}\n\treturn nil\n}\n"),
    ("defer-go", "@@\nvar f expression\n@@\n-go f()\n+go safely(f)\n",
     "package p\n\nfunc h() {\n\tgo work()\n\tgo a.b()\n\tgo func() { x() }()\n\tgo work(1)\n\tdefer work()\n}\n"),
    ("assign-ops", "@@\nvar x, y expression\n@@\n-x = x + y\n+x += y\n",
     "package p\n\nfunc h() {\n\ta = a + 1\n\tb.c = b.c + d()\n\ta = b + 1\n\ta = a - 1\n\te[i] = e[i] + e[j]\n\te[i] = e[j] + e[i]\n}\n"),
    ("chan-ops", "@@\nvar c, v expression\n@@\n-c <- v\n+send(c, v)\n",
     "package p\n\nfunc h() {\n\tch <- 1\n\tx.out <- f()\n\tv := <-ch\n\t_ = v\n\tselect {\n\tcase ch <- 2:\n\t}\n}\n"),
    # an elided run that stands for nothing where the absence of the list is syntax (no '=' / 'default:' / bare return)
    ("valuespec-dots", "@@\nvar x identifier\n@@\n-var x Old = ...\n+var x New = ...\n",
     "package p\n\nvar a Old = mk(1)\n\nvar b Old\n\nvar e, g Old = mk(3), mk(4)\n\nfunc f() {\n\tvar c Old\n\tvar d Old = mk(2)\n\tuse(c, d)\n}\n"),
    ("case-dots", "@@\n@@\n switch v {\n-case old, ...:\n+case renewed, ...:\n   ...\n }\n",
     "package p\n\nfunc f(v int) {\n\tswitch v {\n\tcase old:\n\t\ta()\n\t}\n\tswitch v {\n\tcase old, 2, 3:\n\t\tb()\n\t}\n}\n"),
    ("return-dots", "@@\n@@\n-return oldErr(...)\n+return newErr(...)\n",
     "package p\n\nfunc f() error {\n\tif x {\n\t\treturn oldErr()\n\t}\n\treturn oldErr(1, 2)\n}\n"),
    ("composite-empty", "@@\n@@\n-Old{...}\n+New{...}\n", "package p\n\nvar a = Old{}\nvar b = Old{1, 2}\nvar c = []Old{{}, {3}}\n"),
    # what the patch does not mention around an elision: the label of a loop matched by "for ... {", the spread of a call's last argument
    ("for-dots-labeled", "@@\n@@\n for ... {\n-  x()\n+  y()\n   ...\n }\n",
     "package p\n\nfunc h1(n int) {\n\tfor i := 0; i < n; i++ {\n\t\tx()\n\t}\n}\n\nfunc h2(n int) {\nouter:\n\tfor i := 0; i < n; i++ {\n\t\tx()\n\t\tcontinue outer\n\t}\n}\n\n"
     "func h3(m map[int]int) {\n\tprepare()\nscan:\n\tfor k := range m {\n\t\tx()\n\t\tif k > 0 {\n\t\t\tbreak scan\n\t\t}\n\t}\n}\n\nfunc h4() {\n\tfor {\n\t\tx()\n\t}\n}\n\n"
     "func h5() {\nagain:\n\tfor {\n\t\tx()\n\t\tgoto again\n\t}\n}\n"),
    ("spread-context", "@@\n@@\n log.Println(...)\n-x()\n+y()\n",
     "package p\n\nfunc h(p []any, args ...any) {\n\tlog.Println(1, 2)\n\tx()\n}\n\nfunc k(p []any, args ...any) {\n\tlog.Println(append(p, args...)...)\n\tx()\n}\n\nfunc l(args ...any) {\n\tlog.Println(args...)\n\tx()\n}\n"),
    ("spread-pair", "@@\n@@\n-f(...)\n+g(...)\n",
     "package p\n\nfunc h(xs []int) {\n\tf(1, 2)\n\tf(1, xs...)\n\tf(xs...)\n\tf()\n}\n"),
    ("spread-both", "@@\nvar s expression\n@@\n-f(..., s...)\n+g(..., s...)\n",
     "package p\n\nfunc h(xs []int) {\n\tf(1, xs)\n\tf(1, xs...)\n\tf(xs...)\n\tf(2, 3, mk()...)\n}\n"),
    # "for ... {" over every kind of loop, each alone in its block (a statement pattern matches once per block)
    ("for-dots-kinds", "@@\n@@\n for ... {\n-  a()\n+  A()\n   ...\n }\n",
     "package p\n\nfunc h1(n int) {\n\tfor i := 0; i < n; i++ {\n\t\ta()\n\t\tb()\n\t}\n}\n\nfunc h2(m map[int]int) {\n\tfor k, v := range m {\n\t\ta()\n\t\tuse(k, v)\n\t}\n}\n\n"
     "func h3(ch chan int) {\n\tfor range ch {\n\t\ta()\n\t}\n}\n\nfunc h4() {\n\tfor {\n\t\ta()\n\t}\n}\n\nfunc h5() {\n\tfor cond() {\n\t\ta()\n\t\tc()\n\t}\n}\n\n"
     "func h6(xs []int) {\n\tif ok {\n\t\tfor _, x := range xs {\n\t\t\ta()\n\t\t\tuse(x)\n\t\t}\n\t}\n\tswitch {\n\tcase ok:\n\t\tfor i := range xs {\n\t\t\ta()\n\t\t\tuse(i)\n\t\t}\n\t}\n}\n\n"
     "func h7(xs []int) {\n\tprepare()\n\tfor _, x := range xs {\n\t\tb()\n\t}\n\tfor _, x := range xs {\n\t\ta()\n\t}\n}\n"),
    # an elided run of fields with embedded ones, next to a renamed field
    ("fields-embedded", "@@\n@@\n type Server struct {\n   ...\n-  Name string\n+  FullName string\n   ...\n }\n",
     "package p\n\ntype Server struct {\n\tsync.Mutex\n\tio.Reader\n\t*Config\n\tName string\n\tpkg.Embedded\n\tPort int\n}\n\ntype Other struct {\n\tName string\n}\n"),
    ("iface-embedded", "@@\n@@\n type Store interface {\n   ...\n-  Get(k string) string\n+  Get(ctx Context, k string) string\n   ...\n }\n",
     "package p\n\ntype Store interface {\n\tio.Closer\n\tfmt.Stringer\n\tGet(k string) string\n\tPut(k, v string)\n}\n"),
    # the same metavariable twice on the '+' side, bound to code in which the presence of a token is a position
    ("plus-twice-pos", "@@\nvar x expression\n@@\n-foo(x)\n+bar(x, x)\n",
     "package p\n\nfunc h(a, b []int) {\n\tfoo(append(a, b...))\n\tfoo(func() { type N = int; var (u N); _ = u })\n\tfoo(func() (int) { return 1 })\n\tfoo(g(a, b...))\n\tfoo(1)\n}\n"),
    ("plus-thrice", "@@\nvar x, y expression\n@@\n-pair(x, y)\n+triple(y, x, y, x)\n",
     "package p\n\nfunc h(a, b []int) {\n\tpair(append(a, b...), struct{ A, B int }{1, 2})\n\tpair(<-ch, xs[1:2:3])\n}\n"),
    # an instance inside a site whose own replacement does not fit its slot: the inner one is still rewritten
    ("nested-in-unfit", "@@\nvar x expression\n@@\n-foo(x)\n+x\n",
     "package p\n\nfunc h() {\n\tdefer foo(foo(a) + b)\n\tgo foo(wrap(foo(c)))\n\tdefer foo(d)\n\t_ = foo(foo(e))\n}\n"),
    ("unary-star", "@@\nvar p expression\n@@\n-*p = nil\n+reset(p)\n",
     "package p\n\nfunc h() {\n\t*a = nil\n\t*b.c = nil\n\t**d = nil\n\ta = nil\n\t*a = 0\n}\n"),
    ("slice-expr", "@@\nvar s, n expression\n@@\n-s[:n]\n+head(s, n)\n",
     "package p\n\nfunc h() {\n\t_ = a[:3]\n\t_ = a[1:3]\n\t_ = a[:3:5]\n\t_ = b.c[:len(x)]\n\t_ = a[:]\n}\n"),
    ("interface-decl", "@@\n@@\n type Doer interface {\n   ...\n-  Do() error\n+  Do(ctx Context) error\n   ...\n }\n",
     "package p\n\ntype Doer interface {\n\tName() string\n\tDo() error\n}\n\ntype Doer2 interface {\n\tDo() error\n}\n\ntype Doer interface {\n\tDo() (error, bool)\n}\n"),
    ("const-iota", "@@\nvar n identifier\n@@\n-const n = iota\n+const n int = iota\n",
     "package p\n\nconst A = iota\n\nconst (\n\tB = iota\n\tC\n)\n\nfunc h() {\n\tconst D = iota\n\t_ = D\n}\n\nconst E = 1\n"),
    ("return-multi", "@@\nvar x expression\n@@\n-return x, nil\n+return x, error(nil)\n",
     "package p\n\nfunc h() (int, error) {\n\tif a {\n\t\treturn 1, nil\n\t}\n\tif b {\n\t\treturn f(), nil\n\t}\n\treturn 0, err\n}\n\nfunc g() (int, int, error) {\n\treturn 1, 2, nil\n}\n"),
    ("block-nested", "@@\n@@\n-lock()\n ...\n-unlock()\n+withLock()\n",
     "package p\n\nfunc h() {\n\tlock()\n\tif x {\n\t\tlock()\n\t\tinner()\n\t\tunlock()\n\t}\n\tunlock()\n\t{\n\t\tlock()\n\t\tunlock()\n\t}\n}\n"),
]


# round-5 shapes: a '-' line whose code begins with a unary minus or plus (the marker is one character); fillers that are
# instantiations with several type arguments; a name that is a metavariable of an earlier change and plain code in a later
# one; statements after an elision that begin with '*', '<-', '(' or a type keyword
EXTRA_CASES += [
    ("minus-line-unary-minus", "@@\n@@\n--1\n+neg\n",
     "package p\n\nfunc h() {\n\ta := 1\n\tb := -1\n\tc := - 1\n\td := []int{1, -1, 1 - 1}\n\tuse(a, b, c, d)\n}\n"),
    ("minus-line-unary-mv", "@@\nvar x expression\n@@\n--x\n+neg(x)\n",
     "package p\n\nfunc h() {\n\ta := v\n\tb := -v\n\tc := -(v + 1)\n\td := w - v\n\tuse(a, b, c, d)\n}\n"),
    ("plus-line-unary-plus", "@@\nvar x expression\n@@\n-pos(x)\n++x\n",
     "package p\n\nfunc h() {\n\ta := pos(v)\n\tb := pos(v + 1)\n\tuse(a, b)\n}\n"),
    ("minus-line-not-bitnot", "@@\nvar x expression\n@@\n-!x\n+not(x)\n\n@@\nvar y expression\n@@\n-^y\n+inv(y)\n",
     "package p\n\nfunc h() {\n\ta := !ok\n\tb := ok\n\tc := ^m\n\td := m ^ n\n\tuse(a, b, c, d)\n}\n"),
    ("filler-index-list", "@@\nvar x expression\n@@\n-wrap(x)\n+unwrap(x)\n",
     "package p\n\nfunc h() {\n\t_ = wrap(pair[int, string])\n\t_ = wrap(single[int])\n\t_ = wrap(both[int, string](nil, nil))\n\t_ = wrap(m[k])\n\t_ = wrap(tri[a, b, c]{})\n}\n"),
    ("fun-index-list", "@@\nvar f expression\n@@\n-f(nil, nil)\n+f(nil)\n",
     "package p\n\nfunc h() {\n\t_ = both[int, string](nil, nil)\n\t_ = one[int](nil, nil)\n\t_ = plain(nil, nil)\n\t_ = pkg.Gen[a.T, b.T](nil, nil)\n}\n"),
    ("mv-name-reused-as-code", "@@\nvar x expression\n@@\n-foo(x)\n+bar(x)\n\n@@\n@@\n-x.Close()\n+x.Shutdown()\n",
     "package p\n\nfunc h() {\n\tfoo(1)\n\tx.Close()\n\ty.Close()\n\tz.w.Close()\n}\n"),
    ("mv-name-reused-ident-kind", "@@\nvar f identifier\n@@\n-f(1)\n+f(2)\n\n@@\nvar g identifier\n@@\n-f(g)\n+f(g, g)\n",
     "package p\n\nfunc h() {\n\ta(1)\n\tf(b)\n\tq(b)\n\tf(3)\n}\n"),
    ("stmt-after-dots-deref", "@@\n@@\n begin()\n ...\n-*p = 1\n+*p = 2\n",
     "package p\n\nfunc h() {\n\tbegin()\n\tmid()\n\t*p = 1\n\tend()\n}\n"),
    ("stmt-after-dots-recv", "@@\n@@\n begin()\n ...\n-<-done\n+<-finished\n",
     "package p\n\nfunc h() {\n\tbegin()\n\tmid()\n\t<-done\n\tend()\n}\n"),
    ("stmt-after-dots-paren", "@@\n@@\n begin()\n ...\n-(*f).Close()\n+(*f).Shut()\n",
     "package p\n\nfunc h() {\n\tbegin()\n\tmid()\n\t(*f).Close()\n\tend()\n}\n"),
    ("stmt-after-dots-funclit", "@@\n@@\n begin()\n ...\n-func() { a() }()\n+func() { b() }()\n",
     "package p\n\nfunc h() {\n\tbegin()\n\tmid()\n\tfunc() { a() }()\n\tend()\n}\n"),
    ("stmt-after-dots-bracket", "@@\n@@\n begin()\n ...\n-[]int{1}[0]++\n+[]int{2}[0]++\n",
     "package p\n\nfunc h() {\n\tbegin()\n\tmid()\n\t[]int{1}[0]++\n\tend()\n}\n"),
]


def extra_pairs():
    # hand-written: the instantiated '+' pattern is admissible at every site, so the output must print and parse
    return [("extra:" + n, p.encode(), f.encode(), {"family": "extra:" + n, "must_parse": True}) for n, p, f in EXTRA_CASES]
