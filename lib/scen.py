"""Scenario pools shared by the driver checks (C06 C07 C12 C14 C16)."""
import itertools
import corpus
from clicorr import Scenario, FLAGS

# patches that cannot match anything in the pools below, by construction
NOMATCH_PATCHES = [
    ("call", b"# never matches\n@@\nvar x expression\n@@\n-zzzNope(x)\n+zzzYep(x)\n"),
    ("dots", b"@@\n@@\n-zzzNope(...)\n+zzzYep(...)\n"),
    ("stmts", b"@@\nvar x identifier\n@@\n-x := zzzNope()\n-zzzUse(x)\n+zzzUse(zzzNope())\n"),
    ("funcdecl", b"@@\n@@\n-func zzzNope() {\n+func zzzYep() {\n   ...\n }\n"),
    ("typedecl", b"@@\n@@\n-type zzzNope struct{}\n+type zzzYep struct{}\n"),
    ("import-guard", b"@@\nvar x expression\n@@\n import \"zzz/nope\"\n\n-f(x)\n+g(x)\n"),
    ("package-guard", b"@@\nvar x identifier\n@@\n package zzznope\n\n-x\n+y\n"),
    ("import-guard-expr-name", b"@@\nvar x expression\nvar fmt expression\n@@\n import fmt \"fmt\"\n import os \"zzz/nope\"\n\n-fmt.Println(x)\n+fmt.Print(x)\n"),
    ("import-guard-expr-name-2", b"@@\nvar x expression\nvar os expression\n@@\n-import os \"os\"\n+import \"zzz/yep\"\n\n-os.Exit(x)\n+yep.Exit(x)\n"),
    ("import-guards", b"@@\nvar x expression\nvar n identifier\n@@\n import n \"zzz/nope\"\n-import \"zzz/nope2\"\n+import \"zzz/yep\"\n\n-n.f(x)\n+yep.g(x)\n"),
    ("two-changes", b"@@\n@@\n-zzzNope()\n+zzzYep()\n\n# second\n@@\n@@\n-zzzNope2\n+zzzYep2\n"),
    # statement patterns whose elisions stand next to the implicit ones, or next to each other
    ("stmt-leading-dots", b"@@\n@@\n ...\n-zzzNope()\n+zzzYep()\n"),
    ("stmt-dots-around", b"@@\n@@\n ...\n-zzzNope()\n+zzzYep()\n ...\n"),
    ("stmt-trailing-dots", b"@@\n@@\n-zzzNope()\n+zzzYep()\n ...\n"),
    ("stmt-two-dots", b"@@\n@@\n ...\n ...\n-zzzNope()\n+zzzYep()\n"),
    ("args-two-dots", b"@@\n@@\n-zzzNope(..., ..., 1)\n+zzzYep(...)\n"),
    ("fields-dots", b"@@\n@@\n type zzzNope struct {\n   ...\n-  zzzOld int\n+  zzzNew int\n   ...\n }\n"),
]

QUICK_FLAGSETS = [
    {}, {"diff": True}, {"print": True}, {"print": True, "verbose": True},
    {"diff": True, "skip_imports": True}, {"skip_generated": True}, {"verbose": True},
    {"print": True, "skip_imports": True, "skip_generated": True},
    {"diff": True, "print": True}, {"diff": True, "print": True, "verbose": True, "skip_generated": True},
]


def all_flagsets():
    out = []
    for bits in itertools.product([False, True], repeat=len(FLAGS)):
        fl = dict(zip(FLAGS, bits))
        if fl["diff"] and fl["print"]:
            pass  # allowed: --diff wins
        out.append({k: v for k, v in fl.items() if v})
    return out


def source_pool():
    """name -> bytes : odd hand-written sources + every golden input"""
    pool = dict(corpus.ODD_SOURCES)
    for c in corpus.golden():
        for fn, data in c["inputs"].items():
            pool["%s__%s" % (c["name"], fn.replace("/", "_"))] = data
    return pool


def golden_scenarios(flags, per_case_files=True):
    """one scenario per golden case (all its patches, all its inputs)"""
    out = []
    for c in corpus.golden():
        out.append(Scenario(c["patches"], dict(c["inputs"]), flags, name="golden:" + c["name"]))
    return out


def parseable(pool):
    """drop pool entries go/parser rejects (a few golden inputs are deliberately broken)"""
    import vlib
    names = sorted(pool)
    res = vlib.harness("facts", {"cases": [{"patches": [{"name": "p.patch", "src": vlib.b64(NOMATCH_PATCHES[0][1])}],
                                            "files": [{"name": n, "src": vlib.b64(pool[n])} for n in names],
                                            "abort": True, "api": False}]})["results"][0]
    return {n: pool[n] for n, f in zip(names, res["files"]) if not f["parse_err"]}
