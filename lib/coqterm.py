"""Render serialised engine trees (s-expressions of the harness) as Coq terms of type val,
with type ids written as the T_* names of Gen/Schema.v."""
import re, os
import vlib

_names = None


def tnames():
    global _names
    if _names is None:
        _names = {}
        for m in re.finditer(r"Definition (T_\w+) : ty := (\d+)\.", open(os.path.join(vlib.COQ, "Gen", "Schema.v")).read()):
            _names[int(m.group(2))] = m.group(1)
    return _names


def T(x):
    return tnames().get(int(x), "%s%%N" % x)


def term(v):
    k = v[0]
    if k == "nil":
        return "Nil %s" % T(v[1])
    if k == "pos":
        return "Pos %s" % ("true" if v[1] == "1" else "false")
    if k == "atom":
        return "Atom %s %s" % (T(v[1]), v[2])
    if k == "struct":
        return "Struct %s [%s]" % (T(v[1]), "; ".join(term(x) for x in v[2:]))
    if k == "ptr":
        return "Ptr %s (%s)" % (T(v[1]), term(v[2]))
    if k == "iface":
        return "Iface %s (%s)" % (T(v[1]), term(v[2]))
    if k == "slice":
        return "Slice %s [%s]" % (T(v[1]), "; ".join(term(x) for x in v[2:]))
    raise ValueError(v)


def find(v, pred):
    """first subtree (pre-order) satisfying pred"""
    if pred(v):
        return v
    if v[0] in ("ptr", "iface"):
        return find(v[2], pred)
    if v[0] in ("struct", "slice"):
        for x in v[2:]:
            r = find(x, pred)
            if r is not None:
                return r
    return None
