"""A small unified-diff applier (for C12: applying gopatch --diff output to the original
must give the bytes the other modes produce)."""
import re

HUNK = re.compile(rb"^@@ -(\d+)(?:,(\d+))? \+(\d+)(?:,(\d+))? @@")


class DiffError(Exception):
    pass


def split_files(text):
    """-> list of (old_name, new_name, [hunk lines as bytes incl. newline])"""
    lines = text.split(b"\n")
    # keep line terminators: re-split preserving
    raw = text.splitlines(keepends=True)
    files, i = [], 0
    while i < len(raw):
        if raw[i].startswith(b"--- ") and i + 1 < len(raw) and raw[i + 1].startswith(b"+++ "):
            old = raw[i][4:].rstrip(b"\n")
            new = raw[i + 1][4:].rstrip(b"\n")
            i += 2
            body = []
            while i < len(raw) and not (raw[i].startswith(b"--- ") and i + 1 < len(raw) and raw[i + 1].startswith(b"+++ ")):
                body.append(raw[i])
                i += 1
            files.append((old, new, body))
        else:
            raise DiffError("unexpected line outside a file diff: %r" % raw[i][:80])
    return files


def apply_hunks(orig, body):
    src = orig.splitlines(keepends=True)
    out = []
    pos = 0  # index into src
    i = 0
    while i < len(body):
        m = HUNK.match(body[i])
        if not m:
            raise DiffError("expected hunk header, got %r" % body[i][:80])
        ostart = int(m.group(1))
        ocount = int(m.group(2)) if m.group(2) is not None else 1
        i += 1
        start = ostart - 1 if ocount > 0 else ostart
        if start < pos:
            raise DiffError("overlapping hunks")
        out.extend(src[pos:start])
        pos = start
        while i < len(body) and not HUNK.match(body[i]):
            l = body[i]
            tag, rest = l[:1], l[1:]
            nonl = i + 1 < len(body) and body[i + 1].startswith(b"\\ No newline")
            if nonl:
                rest = rest[:-1] if rest.endswith(b"\n") else rest
            # a printer without "\ No newline at end of file" markers: the last source line may lack its newline
            if tag in (b" ", b"-") and pos == len(src) - 1 and not src[pos].endswith(b"\n") and src[pos] + b"\n" == rest:
                if tag == b" ":
                    out.append(rest)
                pos += 1
                i += 2 if nonl else 1
                continue
            if tag == b" ":
                if pos >= len(src) or src[pos] != rest:
                    raise DiffError("context mismatch at line %d: %r vs %r" % (pos + 1, src[pos] if pos < len(src) else None, rest))
                out.append(src[pos]); pos += 1
            elif tag == b"-":
                if pos >= len(src) or src[pos] != rest:
                    raise DiffError("deletion mismatch at line %d: %r vs %r" % (pos + 1, src[pos] if pos < len(src) else None, rest))
                pos += 1
            elif tag == b"+":
                out.append(rest)
            elif tag == b"\\":
                pass
            elif l in (b"\n", b""):
                # some printers emit an empty line for an empty context line
                if pos < len(src) and src[pos] == b"\n":
                    out.append(src[pos]); pos += 1
                else:
                    raise DiffError("stray empty line in hunk")
            else:
                raise DiffError("bad hunk line %r" % l[:80])
            i += 2 if nonl else 1
    out.extend(src[pos:])
    return b"".join(out)


def apply(orig_by_name, text):
    """orig_by_name: dict name(bytes) -> bytes ; returns dict name -> new bytes for every file in the diff"""
    res = {}
    for old, new, body in split_files(text):
        if old not in orig_by_name:
            raise DiffError("diff names unknown file %r" % old)
        res[old] = apply_hunks(orig_by_name[old], body)
    return res
