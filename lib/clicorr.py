"""Correspondence between the real gopatch binary and the Coq driver model (Model/Cli.v).

A scenario = patch texts, a file tree, flags, path arguments.  run_scenarios():
  1. materialises each scenario in a scratch directory and runs the binary built from /repo,
     recording exit status, stdout, stderr and the tree before/after (bytes, inode, mtime);
  2. asks the Go harness (library code of /repo through the verif hooks) for the facts the
     loop branches on: does the file parse, its comment header, what the engine does with it,
     what format/imports.Process return;
  3. runs the extracted Coq model `run` on those facts;
  4. renders the model's events as stdout / stderr / final tree and compares.
"""
import os, shutil, stat, subprocess, hashlib
import vlib
from vlib import b64, unb64, hx, unhx, sx

FLAGS = ["diff", "print", "skip_imports", "skip_generated", "verbose"]
FLAG_ARGS = {"diff": "-d", "print": "--print-only", "skip_imports": "--skip-import-processing",
             "skip_generated": "--skip-generated", "verbose": "-v"}


class Scenario:
    def __init__(self, patches, files, flags, args=None, name="", patch_mode="p", uid=None, chmod=None):
        self.patches = patches          # list of (relname, bytes)
        self.files = files              # dict relpath -> bytes
        self.flags = dict((k, bool(flags.get(k))) for k in FLAGS)
        self.args = args                # path arguments as given on the command line; default: all files
        self.name = name
        self.patch_mode = patch_mode    # "p": -p each; "stdin": single patch on stdin; "P": list file
        self.uid = uid
        self.chmod = chmod or {}        # relpath -> mode (applied before the run)

    def describe(self):
        return {"name": self.name, "flags": {k: v for k, v in self.flags.items() if v},
                "patches": [p[1].decode("utf-8", "replace") for p in self.patches],
                "files": {k: v.decode("utf-8", "replace") for k, v in self.files.items()},
                "args": self.args, "patch_mode": self.patch_mode}


def snapshot(root):
    out = {}
    for d, dirs, files in os.walk(root):
        for f in files + dirs:
            p = os.path.join(d, f)
            st = os.lstat(p)
            rel = os.path.relpath(p, root)
            if stat.S_ISREG(st.st_mode):
                try:
                    data = open(p, "rb").read()
                except OSError:
                    data = None
                out[rel] = ("f", data, st.st_ino, st.st_mtime_ns, stat.S_IMODE(st.st_mode))
            elif stat.S_ISLNK(st.st_mode):
                out[rel] = ("l", os.readlink(p), st.st_ino, st.st_mtime_ns, 0)
            else:
                out[rel] = ("d", None, st.st_ino, 0, stat.S_IMODE(st.st_mode))
    return out


def materialise(sc, root):
    os.makedirs(os.path.join(root, "w"))
    os.makedirs(os.path.join(root, "patches"))
    for rel, data in sc.files.items():
        p = os.path.join(root, "w", rel)
        os.makedirs(os.path.dirname(p), exist_ok=True)
        with open(p, "wb") as f:
            f.write(data)
    for rel, data in getattr(sc, "extra_files", {}).items():
        p = os.path.join(root, "w", rel)
        os.makedirs(os.path.dirname(p), exist_ok=True)
        with open(p, "wb") as f:
            f.write(data)
    for rel, data in sc.patches:
        with open(os.path.join(root, "patches", rel), "wb") as f:
            f.write(data)
    for rel, mode in sc.chmod.items():
        os.chmod(os.path.join(root, "w", rel), mode)
    if sc.uid is not None:
        for d, dirs, files in os.walk(root):
            os.chown(d, sc.uid, sc.uid)
            for f in files:
                os.chown(os.path.join(d, f), sc.uid, sc.uid)
        os.chmod(root, 0o755)


def command_line(sc, root):
    argv, stdin = [], b""
    if sc.patch_mode == "p":
        for rel, _ in sc.patches:
            argv += ["-p", os.path.join(root, "patches", rel)]
    elif sc.patch_mode == "stdin":
        stdin = sc.patches[0][1]
    elif sc.patch_mode == "P":
        lst = os.path.join(root, "patches", "list.txt")
        with open(lst, "w") as f:
            f.write("".join(os.path.join(root, "patches", rel) + "\n" for rel, _ in sc.patches))
        argv += ["-P", lst]
    for k in FLAGS:
        if sc.flags[k]:
            argv.append(FLAG_ARGS[k])
    args = sc.args if sc.args is not None else sorted(sc.files)
    return argv + [a.replace("<CWD>", os.path.join(root, "w")) for a in args], stdin


def execute(sc):
    """Run the real binary; returns observation dict."""
    root = vlib.scratch("cli")
    try:
        materialise(sc, root)
        cwd = os.path.join(root, "w")
        before = snapshot(cwd)
        argv, stdin = command_line(sc, root)
        rc, out, err = vlib.run_gopatch(argv, cwd, stdin=stdin, uid=sc.uid)
        after = snapshot(cwd)
        rb = root.encode()
        return {"root": root, "cwd": cwd, "argv": argv, "rc": rc, "stdout": out, "stderr": err,
                "nstdout": out.replace(rb, b"<ROOT>"), "nstderr": err.replace(rb, b"<ROOT>"),
                "before": before, "after": after}
    finally:
        shutil.rmtree(root, ignore_errors=True)


def _excluded_dir(name):
    return name in ("vendor", "testdata") or name.startswith(".") or name.startswith("_")


def provided_and_abs(sc, cwd):
    """File list in the order the loop visits it (sorted by absolute path, de-duplicated), with the
    'provided' form.  This is the *input* of the loop model; discovery itself is modelled in
    Model/Discover.v and checked by C15.  Scenario trees contain regular files only (plus the
    'extra' distractor files), so a small reference walk is enough here."""
    args = sc.args if sc.args is not None else sorted(sc.files)
    regular = set(sc.files) | set(getattr(sc, "extra_files", {}))
    m = {}
    for a in args:
        a = a.replace("<CWD>", cwd)
        isabs = os.path.isabs(a)
        t = a[:-3] if a.endswith("...") else a
        ab = os.path.normpath(os.path.join(cwd, t)) if not isabs else os.path.normpath(t)
        rel = os.path.relpath(ab, cwd)
        cands = []
        if rel in regular:
            cands = [rel]
        else:
            pre = "" if rel == "." else rel + "/"
            if not _excluded_dir(os.path.basename(ab)):
                for f in sorted(regular):
                    if f.startswith(pre):
                        inner = f[len(pre):].split("/")[:-1]
                        if not any(_excluded_dir(d) for d in inner):
                            cands.append(f)
        for f in cands:
            if not f.endswith(".go"):
                continue
            fab = os.path.join(cwd, f)
            m[fab] = os.path.relpath(fab, cwd) if not isabs else fab
    return [(ab, m[ab]) for ab in sorted(m, key=lambda x: x.encode())]


def outcome_of_facts(ff):
    """fileFacts (harness, abort semantics) -> model outcome s-expression"""
    if ff.get("panic"):
        # recovered by gopatch and reported as an error for the file
        return ["rerr", hx("internal error")]
    steps = ff["steps"] or []
    for s in steps:
        if s["replace_err"]:
            return ["rerr", hx(s["replace_err"])]
    matched = [s for s in steps if s["matched"]]
    if not matched:
        return "nomatch"
    cs = [hx(c) for c in (matched[-1]["comments"] or [])]
    if ff["format_err"]:
        return ["matched", cs, ["err", hx(ff["format_err"])]]
    return ["matched", cs, ["ok", hx(unb64(ff["formatted"]))]]


def header_sx(h):
    if h is None:
        return [["groups"], ["doc"]]
    return [["groups"] + [[[c["after"], hx(unb64(c["text"]))] for c in g] for g in h["groups"]],
            ["doc"] + [hx(unb64(t)) for t in h["doc"]]]


def model_case(sc, obs, facts, targets, unreadable=()):
    """Build the (cli ...) case for the model."""
    parses, headers, engine, process = {}, {}, {}, {}
    tgs = []
    for (ab, prov), ff in zip(targets, facts):
        rel = os.path.relpath(ab, obs["cwd"])
        content = sc.files[rel]
        k = hx(content)
        if rel in unreadable:
            tgs.append([hx(ab), hx(prov), ["err", hx("open %s: permission denied" % ab)], "none"])
            continue
        werr = "none"
        if rel in getattr(sc, "write_fail", {}):
            werr = hx(sc.write_fail[rel])
        tgs.append([hx(ab), hx(prov), ["ok", k], werr])
        parses[k] = hx(ff["parse_err"]) if ff["parse_err"] else "none"
        if ff["parse_err"]:
            continue
        headers[k] = header_sx(ff["header"])
        engine[k] = outcome_of_facts(ff)
        if ff["formatted"] is not None and not ff["format_err"] and engine[k] != "nomatch" and engine[k][0] == "matched":
            fk = hx(unb64(ff["formatted"]))
            parses.setdefault(fk, hx(ff["fmt_parse_err"]) if ff["fmt_parse_err"] else "none")
            if ff["proc_err"]:
                process[fk] = ["err", hx(ff["proc_err"])]
            else:
                pk = hx(unb64(ff["processed"]))
                process[fk] = ["ok", pk]
                ppe = ff.get("proc_parse_err", "")
                parses.setdefault(pk, hx(ppe) if ppe else "none")
    o = sc.flags
    return sx(["cli", ["opts", o["diff"], o["print"], o["skip_imports"], o["skip_generated"], o["verbose"]],
               ["targets"] + tgs,
               ["parses"] + [[k, v] for k, v in parses.items()],
               ["headers"] + [[k, v] for k, v in headers.items()],
               ["engine"] + [[k, v] for k, v in engine.items()],
               ["process"] + [[k, v] for k, v in process.items()]])


LOGFMT = {"gen_skipped": "generated file %s: skipped\n", "skipped": "%s: skipped\n", "patched": "%s: patched\n"}
ERRFMT = {"parse": 'could not parse "%s": %s', "update": 'could not update "%s": %s',
          "rewrite": 'failed to rewrite "%s": %s', "reformat": 'reformat "%s": %s'}


def match_stdout(actual, segs):
    """segs: [("bytes", b) | ("log", path)].  Content must match byte for byte; a log line (-v) is one line that names
    the file - its wording is not part of any property.  Returns None or a description of the first difference."""
    pos = 0
    for sg in segs:
        if sg[0] == "bytes":
            if actual[pos:pos + len(sg[1])] != sg[1]:
                return "content differs at offset %d: expected %r..., got %r..." % (pos, sg[1][:120], actual[pos:pos + 120])
            pos += len(sg[1])
        else:
            nl = actual.find(b"\n", pos)
            if nl < 0:
                return "missing -v line about %s" % sg[1]
            line = actual[pos:nl]
            if sg[1].encode() not in line:
                return "expected a -v line about %s, got %r" % (sg[1], line[:160])
            pos = nl + 1
    if pos != len(actual):
        return "unexpected further output %r..." % actual[pos:pos + 160]
    return None


def render(sc, res, diff_of):
    """model result -> expected (stdout segments, stderr_desc, errors, writes)"""
    evs = vlib.field(res, "events")
    errs = vlib.field(res, "errors")
    out, desc, writes = [], [], []
    for e in evs:
        k = e[0]
        if k == "log":
            if sc.flags["verbose"]:
                p = unhx(e[2]).decode()
                out.append(("log", p))
        elif k == "out":
            out.append(("bytes", unhx(e[3])))
        elif k == "diff":
            out.append(("bytes", diff_of(unhx(e[2]).decode(), unhx(e[3]), unhx(e[4]))))
        elif k == "desc":
            desc.append(unhx(e[2]) + b":" + unhx(e[3]) + b"\n")
        elif k == "write":
            writes.append((unhx(e[2]).decode(), unhx(e[3]), e[4] == "1"))
    errors = []
    for e in errs:
        kind, p, m = e[0], unhx(e[1]).decode(), unhx(e[2]).decode("utf-8", "replace")
        errors.append((kind, p, m))
    return out, b"".join(desc), errors, writes, int(vlib.field(res, "exit")[0])


def run_scenarios(scs, api=False):
    """-> list of dicts {sc, obs, pred, mismatches} ; mismatches is a list of strings"""
    obs = vlib.pmap(execute, scs)
    # facts
    reqs = []
    tlists = []
    for sc, ob in zip(scs, obs):
        tl = provided_and_abs(sc, ob["cwd"])
        tlists.append(tl)
        reqs.append({"patches": [{"name": os.path.join(ob["root"], "patches", rel) if sc.patch_mode != "stdin" else "stdin",
                                  "src": b64(data)} for rel, data in sc.patches],
                     "files": [{"name": ab, "src": b64(sc.files[os.path.relpath(ab, ob["cwd"])])} for ab, _ in tl],
                     "abort": True, "api": api})
    facts = vlib.harness("facts", {"cases": reqs})["results"]
    cases, idx = [], []
    results = []
    for i, (sc, ob, fr, tl) in enumerate(zip(scs, obs, facts, tlists)):
        r = {"sc": sc, "obs": ob, "facts": fr, "targets": tl, "mismatches": [], "pred": None}
        results.append(r)
        if fr.get("panic") or fr["load_err"]:
            r["load_err"] = fr.get("panic") or fr["load_err"]
            continue
        unreadable = [rel for rel, mode in sc.chmod.items() if sc.uid is not None and not (mode & 0o444)]
        r["unreadable"] = unreadable
        cases.append(model_case(sc, ob, fr["files"], tl, unreadable))
        idx.append(i)
    preds = vlib.model(cases)
    # diff texts wanted
    want = []
    for i, res in zip(idx, preds):
        results[i]["pred"] = res
        if res[0] == "result":
            for e in vlib.field(res, "events"):
                if e[0] == "diff":
                    want.append((unhx(e[2]).decode(), unhx(e[3]), unhx(e[4])))
    dt = {}
    if want:
        texts = vlib.harness("difftext", {"items": [{"name": n, "old": b64(o), "new": b64(w)} for n, o, w in want]})["texts"]
        for (n, o, w), t in zip(want, texts):
            dt[(n, o, w)] = unb64(t)
    for r in results:
        compare(r, lambda n, o, w: dt[(n, o, w)])
    return results


def compare(r, diff_of):
    sc, ob, res = r["sc"], r["obs"], r["pred"]
    mm = r["mismatches"]
    if ob["rc"] == -999:
        mm.append("gopatch timed out")
        return
    if res is None:
        # the patch does not load: the implementation must fail too, nothing may change
        if ob["rc"] == 0:
            mm.append("patch rejected by the library but the command line exited 0")
        if tree_changes(ob):
            mm.append("patch rejected but files changed: %s" % tree_changes(ob))
        return
    if res[0] != "result":
        mm.append("model error: %r" % (res,))
        return
    out, desc, errors, writes, exit_ = render(sc, res, diff_of)
    r["expected"] = {"stdout": out, "desc": desc, "errors": errors, "writes": writes, "exit": exit_}
    if (ob["rc"] != 0) != (exit_ != 0):
        mm.append("exit status: model %d, gopatch %d" % (exit_, ob["rc"]))
    d = match_stdout(ob["stdout"], out)
    if d:
        mm.append("stdout differs: %s" % d)
    # stderr = descriptions, then (if any error) one line with the combined error
    err = ob["stderr"]
    if not err.startswith(desc):
        mm.append("stderr descriptions differ: model %r, gopatch %r" % (desc[:300], err[:300]))
    else:
        tail = err[len(desc):].decode("utf-8", "replace")
        if not errors and tail.strip():
            mm.append("unexpected stderr: %r" % tail[:300])
        for kind, p, m in errors:
            if p not in tail:
                mm.append("stderr does not name %s (%s error): %r" % (p, kind, tail[:300]))
            elif m and m not in tail:
                mm.append("stderr does not carry the cause %r of the %s error: %r" % (m[:100], kind, tail[:300]))
    # file system: expected final content
    exp = {rel: v[1] for rel, v in ob["before"].items() if v[0] == "f"}
    touched = set()
    for p, bs, failed in writes:
        rel = os.path.relpath(p, ob["cwd"])
        touched.add(rel)
        if not failed:
            exp[rel] = bs
    act = {rel: v[1] for rel, v in ob["after"].items() if v[0] == "f"}
    for rel in sorted(set(exp) | set(act)):
        if rel in touched and any(f for p, b, f in writes if os.path.relpath(p, ob["cwd"]) == rel and f):
            continue  # failed write: content is FsProto's business
        if exp.get(rel) != act.get(rel):
            mm.append("content of %s differs from the model's prediction" % rel)
    for rel in tree_changes(ob):
        if rel not in touched:
            mm.append("%s was touched (inode/mtime/mode/content) but the model issues no write for it" % rel)


def tree_changes(ob):
    ch = []
    for rel in sorted(set(ob["before"]) | set(ob["after"])):
        b, a = ob["before"].get(rel), ob["after"].get(rel)
        if b is None or a is None:
            ch.append(rel)
        elif b[0] == "d":
            if a[0] != "d" or a[4] != b[4]:
                ch.append(rel)
        elif a != b:
            ch.append(rel)
    return ch


# ---------------------------------------------------------------- system-call level observation
import re as _re
_CALL = _re.compile(r"^(\d+)\s+(\w+)\((.*)\)\s+=\s+(-?\d+|\?)(.*)$")
_STR = _re.compile(r'"((?:[^"\\]|\\.)*)"')
MUTATING = {"rename", "renameat", "renameat2", "unlink", "unlinkat", "mkdir", "mkdirat", "rmdir", "chmod",
            "fchmodat", "truncate", "link", "linkat", "symlink", "symlinkat", "utimensat", "utime", "utimes",
            "chown", "fchownat", "lchown", "mknod", "mknodat", "creat", "setxattr", "removexattr"}
OPEN_WRITE = ("O_WRONLY", "O_RDWR", "O_CREAT", "O_TRUNC", "O_APPEND")


def execute_strace(sc, inject=None):
    """Run gopatch under strace. Returns obs dict plus 'calls': list of (pid, name, args, ret) for
    file-system calls, and 'mutations': those that modify something under the scenario root."""
    root = vlib.scratch("st")
    try:
        materialise(sc, root)
        cwd = os.path.join(root, "w")
        before = snapshot(cwd)
        argv, stdin = command_line(sc, root)
        trace = os.path.join(root, "trace.txt")
        cmd = ["strace", "-f", "-qq", "-o", trace, "-s", "2000000",
               "-e", "trace=%file,write,pwrite64,writev,ftruncate,fchmod,fchown,close,fsync,fdatasync,dup,dup2,dup3"]
        if inject:
            cmd += ["-e", "inject=" + inject]
        cmd += [vlib.GOPATCH] + argv
        try:
            p = subprocess.run(cmd, cwd=cwd, input=stdin, stdout=subprocess.PIPE, stderr=subprocess.PIPE, timeout=120)
            rc, out, err = p.returncode, p.stdout, p.stderr
        except subprocess.TimeoutExpired:
            rc, out, err = -999, b"", b""
        after = snapshot(cwd)
        calls = parse_strace(open(trace, errors="replace").read() if os.path.exists(trace) else "")
        muts = mutations(calls, root, cwd)
        rb = root.encode()
        return {"root": root, "cwd": cwd, "argv": argv, "rc": rc, "stdout": out, "stderr": err,
                "nstdout": out.replace(rb, b"<ROOT>"), "nstderr": err.replace(rb, b"<ROOT>"),
                "before": before, "after": after, "calls": calls, "mutations": muts}
    finally:
        shutil.rmtree(root, ignore_errors=True)


def parse_strace(text):
    calls = []
    pending = {}
    for line in text.split("\n"):
        line = line.rstrip()
        if not line:
            continue
        m = _re.match(r"^(\d+)\s+(.*)$", line)
        if not m:
            continue
        pid, rest = m.group(1), m.group(2)
        if rest.endswith("<unfinished ...>"):
            pending[pid] = rest[:-len("<unfinished ...>")].rstrip()
            continue
        mm = _re.match(r"^<\.\.\. (\w+) resumed>(.*)$", rest)
        if mm and pid in pending:
            rest = pending.pop(pid) + mm.group(2)
        m2 = _re.match(r"^(\w+)\((.*)\)\s+=\s+(-?\d+|\?)(.*)$", rest)
        if not m2:
            continue
        calls.append((pid, m2.group(1), m2.group(2), m2.group(3), m2.group(4)))
    return calls


def _paths(args):
    return [bytes(s, "latin1").decode("unicode_escape") for s in _STR.findall(args)]


def mutations(calls, root, cwd):
    """system calls that create, modify or remove something below root (stdio and /dev excluded)"""
    muts = []
    fds = {}   # (pid-agnostic) fd -> path for fds opened for writing under root
    for pid, name, args, ret, tail in calls:
        paths = [p if os.path.isabs(p) else os.path.normpath(os.path.join(cwd, p)) for p in _paths(args)]
        inside = [p for p in paths if p.startswith(root + "/") and not p.endswith("trace.txt")]
        if name in ("open", "openat", "creat"):
            if inside and (name == "creat" or any(f in args for f in OPEN_WRITE)):
                muts.append((name, inside[0], args, ret))
                if ret not in ("?",) and int(ret) >= 0:
                    fds[int(ret)] = inside[0]
        elif name in MUTATING:
            if inside:
                muts.append((name, inside, args, ret))
        elif name in ("write", "pwrite64", "writev", "ftruncate", "fchmod", "fchown"):
            fd = int(args.split(",")[0]) if args.split(",")[0].strip().isdigit() else None
            if fd in fds:
                muts.append((name, fds[fd], args[:80], ret))
        elif name == "close":
            fd = int(args) if args.strip().isdigit() else None
            fds.pop(fd, None)
    return muts
