"""Correspondence of the rewriting engine: /repo's parser+engine (harness 'engine', through the
verif hooks) vs the Coq engine model (Tree/Match/Replace/FileEngine/Program) on the same
serialised pattern and target trees.  Trees are compared in a canonical form (positions erased
except where they are syntax, redundant parentheses stripped, nil = empty lists, no objects)."""
import vlib
from vlib import b64, unb64, parse_sx

_schema = None


def schema():
    global _schema
    if _schema is None:
        s = vlib.harness("schema", {})
        ids = {n: i + 1 for i, n in enumerate(s["types"])}
        names = {i + 1: n for i, n in enumerate(s["types"])}
        fields = {}
        for st in s["structs"]:
            fields[ids[st["name"]]] = [f["name"] for f in st["fields"]]
        _schema = {"ids": ids, "names": names, "fields": fields, "raw": s}
    return _schema


KEEP_POS = {("ast.CallExpr", "Ellipsis"), ("ast.TypeSpec", "Assign")}


def canon(v):
    """canonical form of a serialised tree (nested lists of strings)"""
    sc = schema()
    ids = sc["ids"]
    PAREN, OBJ = str(ids["*ast.ParenExpr"]), str(ids["*ast.Object"])
    def go(v, keep_pos=False):
        k = v[0]
        if k == "pos":
            return v if keep_pos else ["pos", "_"]
        if k in ("nil", "atom"):
            return v
        if k == "slice":
            if len(v) == 2:
                return ["nil", v[1]]
            return ["slice", v[1]] + [go(x) for x in v[2:]]
        if k == "iface":
            inner = v[2]
            if inner[0] == "ptr" and inner[1] == PAREN:
                # (ptr ParenExpr (struct _ lparen X rparen)) -> X
                return go(inner[2][3])
            return ["iface", v[1], go(inner)]
        if k == "ptr":
            if v[1] == OBJ:
                return ["nil", OBJ]
            return ["ptr", v[1], go(v[2])]
        if k == "struct":
            tname = sc["names"].get(int(v[1]), "?")
            fn = sc["fields"].get(int(v[1]), [])
            out = ["struct", v[1]]
            for i, f in enumerate(v[2:]):
                out.append(go(f, keep_pos=(i < len(fn) and (tname, fn[i]) in KEEP_POS)))
            return out
        return v
    return go(v)


def diff_paths(a, b, path="", out=None, limit=6):
    """paths at which two canonical trees differ (outermost differing nodes)"""
    if out is None:
        out = []
    if len(out) >= limit:
        return out
    if a == b:
        return out
    if not isinstance(a, list) or not isinstance(b, list) or a[0] != b[0] or a[1] != b[1] or len(a) != len(b) \
            or a[0] in ("nil", "atom", "pos"):
        out.append(path or "/")
        return out
    sc = schema()
    for i, (x, y) in enumerate(zip(a[2:], b[2:])):
        if a[0] == "struct":
            fn = sc["fields"].get(int(a[1]), [])
            seg = fn[i] if i < len(fn) else str(i)
        elif a[0] == "slice":
            seg = "[%d]" % i
        else:
            seg = ""
        diff_paths(x, y, path + ("/" + seg if seg else ""), out, limit)
    return out


def show(v, atoms, depth=0, maxdepth=6):
    """compact human-readable rendering of a serialised tree"""
    sc = schema()
    k = v[0]
    if k == "pos":
        return "."
    if k == "nil":
        return "nil"
    if k == "atom":
        i = int(v[2])
        return repr(atoms[i - 1]) if 0 < i <= len(atoms) else "#%s" % v[2]
    if depth > maxdepth:
        return "..."
    if k in ("ptr", "iface"):
        return show(v[2], atoms, depth, maxdepth)
    if k == "slice":
        return "[" + ", ".join(show(x, atoms, depth + 1, maxdepth) for x in v[2:]) + "]"
    if k == "struct":
        n = sc["names"].get(int(v[1]), v[1]).replace("ast.", "")
        parts = [show(x, atoms, depth + 1, maxdepth) for x in v[2:]]
        parts = [p for p in parts if p not in (".", "nil")]
        return "%s(%s)" % (n, ", ".join(parts))
    return "?"


def imports_of(sx):
    """'((name path base) ...)' -> sorted list of (name|None, path)"""
    l = parse_sx(sx) if isinstance(sx, str) else sx
    return sorted((0 if e[0] == "none" else int(e[0]), int(e[1])) for e in l)


def run(pairs, abort=False, serial=False):
    """pairs: list of (patch_name, patch_bytes, file_name, file_bytes) -> list of result dicts"""
    reqs = [{"patch": {"name": pn, "src": b64(ps)}, "file": {"name": fn, "src": b64(fs)}} for pn, ps, fn, fs in pairs]
    impl = vlib.harness("engine", {"cases": reqs, "serial": serial})["results"]
    cases, idx = [], []
    for i, r in enumerate(impl):
        if r.get("panic") or r["load_err"] or r["parse_err"] or not r["case"]:
            continue
        c = r["case"]
        if abort:
            c = c[:-1] + " (abort 1))"
        cases.append(c)
        idx.append(i)
    models = vlib.model(cases)
    out = [{"impl": r, "model": None, "diffs": [], "skipped": None} for r in impl]
    for i, m in zip(idx, models):
        out[i]["model"] = m
    for o in out:
        r, m = o["impl"], o["model"]
        if r.get("panic"):
            o["skipped"] = "harness panic: " + r["panic"][:300]
            continue
        if r["load_err"]:
            o["skipped"] = "patch rejected: " + r["load_err"][:200]
            continue
        if r["parse_err"]:
            o["skipped"] = "target does not parse"
            continue
        if m is None or m[0] != "result":
            o["diffs"].append("model error: %r" % (m,))
            continue
        if m[1][0] == "compile-error":
            o["diffs"].append("model rejects the patch (no '-' elision before a '+' elision) but gopatch loaded it")
            continue
        compare(o)
    return out


def compare(o):
    r, m = o["impl"], o["model"]
    msteps = vlib.field(m, "steps")
    isteps = ["err" if s["replace_err"] else ("ok" if s["matched"] else "nomatch") for s in (r["steps"] or [])]
    o["msteps"], o["isteps"] = msteps, isteps
    if msteps != isteps:
        o["diffs"].append("per-change outcomes differ: model %s, gopatch %s" % (msteps, isteps))
        return
    if "err" in isteps:
        return
    if "ok" not in isteps:
        return
    if r["out_err"]:
        o["skipped"] = "output does not print/parse: " + r["out_err"][:120]
        return
    mt = canon(vlib.field(m, "tree")[0])
    it = canon(parse_sx(r["out_tree"]))
    o["mtree"], o["itree"] = mt, it
    if mt != it:
        paths = diff_paths(mt, it)
        o["diffs"].append("rewritten tree differs at %s" % paths)
    mi = sorted((0 if e[0] == "none" else int(e[0]), int(e[1])) for e in vlib.field(m, "imports"))
    ii = imports_of(r["out_imports"])
    o["mimports"], o["iimports"] = mi, ii
    if mi != ii:
        at = r["atoms"]
        nm = lambda l: [((at[a - 1] if a else None), at[b - 1]) for a, b in l]
        o["diffs"].append("imports differ: model %s, gopatch %s" % (nm(mi), nm(ii)))
