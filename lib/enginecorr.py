"""Correspondence of the rewriting engine: /repo's parser+engine (harness 'engine', through the
verif hooks) vs the Coq engine model (Tree/Match/Replace/FileEngine/Program) on the same
serialised pattern and target trees.  Trees are compared in a canonical form (positions erased
except where they are syntax, redundant parentheses stripped, nil = empty lists, no objects)."""
import vlib
from vlib import b64, unb64, parse_sx

_schema = None


def schema():
    global _schema
    if _schema is None:
        s = vlib.harness("schema", {})
        ids = {n: i + 1 for i, n in enumerate(s["types"])}
        names = {i + 1: n for i, n in enumerate(s["types"])}
        fields = {}
        for st in s["structs"]:
            fields[ids[st["name"]]] = [f["name"] for f in st["fields"]]
        _schema = {"ids": ids, "names": names, "fields": fields, "raw": s}
    return _schema


KEEP_POS = {("ast.CallExpr", "Ellipsis"), ("ast.TypeSpec", "Assign")}


def canon(v):
    """canonical form of a serialised tree (nested lists of strings)"""
    sc = schema()
    ids = sc["ids"]
    PAREN, OBJ = str(ids["*ast.ParenExpr"]), str(ids["*ast.Object"])
    def go(v, keep_pos=False):
        k = v[0]
        if k == "pos":
            return v if keep_pos else ["pos", "_"]
        if k in ("nil", "atom"):
            return v
        if k == "slice":
            if len(v) == 2:
                return ["nil", v[1]]
            return ["slice", v[1]] + [go(x) for x in v[2:]]
        if k == "iface":
            inner = v[2]
            if inner[0] == "ptr" and inner[1] == PAREN:
                # (ptr ParenExpr (struct _ lparen X rparen)) -> X
                return go(inner[2][3])
            return ["iface", v[1], go(inner)]
        if k == "ptr":
            if v[1] == OBJ:
                return ["nil", OBJ]
            return ["ptr", v[1], go(v[2])]
        if k == "struct":
            tname = sc["names"].get(int(v[1]), "?")
            fn = sc["fields"].get(int(v[1]), [])
            out = ["struct", v[1]]
            for i, f in enumerate(v[2:]):
                out.append(go(f, keep_pos=(i < len(fn) and (tname, fn[i]) in KEEP_POS)))
            return out
        return v
    return go(v)


def diff_paths(a, b, path="", out=None, limit=6):
    """paths at which two canonical trees differ (outermost differing nodes)"""
    if out is None:
        out = []
    if len(out) >= limit:
        return out
    if a == b:
        return out
    if not isinstance(a, list) or not isinstance(b, list) or a[0] != b[0] or a[1] != b[1] or len(a) != len(b) \
            or a[0] in ("nil", "atom", "pos"):
        out.append(path or "/")
        return out
    sc = schema()
    for i, (x, y) in enumerate(zip(a[2:], b[2:])):
        if a[0] == "struct":
            fn = sc["fields"].get(int(a[1]), [])
            seg = fn[i] if i < len(fn) else str(i)
        elif a[0] == "slice":
            seg = "[%d]" % i
        else:
            seg = ""
        diff_paths(x, y, path + ("/" + seg if seg else ""), out, limit)
    return out


def show(v, atoms, depth=0, maxdepth=6):
    """compact human-readable rendering of a serialised tree"""
    sc = schema()
    k = v[0]
    if k == "pos":
        return "."
    if k == "nil":
        return "nil"
    if k == "atom":
        i = int(v[2])
        return repr(atoms[i - 1]) if 0 < i <= len(atoms) else "#%s" % v[2]
    if depth > maxdepth:
        return "..."
    if k in ("ptr", "iface"):
        return show(v[2], atoms, depth, maxdepth)
    if k == "slice":
        return "[" + ", ".join(show(x, atoms, depth + 1, maxdepth) for x in v[2:]) + "]"
    if k == "struct":
        n = sc["names"].get(int(v[1]), v[1]).replace("ast.", "")
        parts = [show(x, atoms, depth + 1, maxdepth) for x in v[2:]]
        parts = [p for p in parts if p not in (".", "nil")]
        return "%s(%s)" % (n, ", ".join(parts))
    return "?"


def imports_of(sx):
    """'((name path base) ...)' -> sorted list of (name|None, path)"""
    l = parse_sx(sx) if isinstance(sx, str) else sx
    return sorted((0 if e[0] == "none" else int(e[0]), int(e[1])) for e in l)


def _cli(pair):
    """the same patch and file through the binary built from /repo: (exit status, bytes of the file afterwards, stderr)"""
    import os, shutil
    pn, ps, fn, fs = pair
    d = vlib.scratch("ecli")
    try:
        with open(os.path.join(d, "p.patch"), "wb") as f:
            f.write(ps)
        with open(os.path.join(d, "a.go"), "wb") as f:
            f.write(fs)
        rc, so, se = vlib.run_gopatch(["-p", "p.patch", "a.go"], d)
        return rc, open(os.path.join(d, "a.go"), "rb").read(), se
    finally:
        shutil.rmtree(d, ignore_errors=True)


def run(pairs, abort=False, serial=False, cli_every=8):
    """pairs: list of (patch_name, patch_bytes, file_name, file_bytes) -> list of result dicts.
    Every cli_every-th case also goes through the binary (main.go has its own copy of the change loop)."""
    reqs = [{"patch": {"name": pn, "src": b64(ps)}, "file": {"name": fn, "src": b64(fs)}} for pn, ps, fn, fs in pairs]
    impl = vlib.harness("engine", {"cases": reqs, "serial": serial})["results"]
    cases, idx = [], []
    for i, r in enumerate(impl):
        if r.get("panic") or r["load_err"] or r["parse_err"] or not r["case"]:
            continue
        c = r["case"]
        if abort:
            c = c[:-1] + " (abort 1))"
        cases.append(c)
        idx.append(i)
    models = vlib.model(cases)
    out = [{"impl": r, "model": None, "diffs": [], "skipped": None} for r in impl]
    if cli_every and not abort:
        sel = [i for i in idx if i % cli_every == 0]
        for i, c in zip(sel, vlib.pmap(lambda i: _cli(pairs[i]), sel)):
            out[i]["cli"] = c
    for i, m in zip(idx, models):
        out[i]["model"] = m
    for o in out:
        r, m = o["impl"], o["model"]
        if r.get("panic"):
            o["skipped"] = "harness panic: " + r["panic"][:300]
            continue
        if r["load_err"]:
            o["skipped"] = "patch rejected: " + r["load_err"][:200]
            continue
        if r.get("hook_panic"):
            # rewriting panics (the public API recovers and reports an internal error): nothing to compare
            o["skipped"] = "rewriting panics, reported as an error by Apply: " + (r.get("api_err") or "")[:120]
            if not r.get("api_err"):
                o["skipped"] = None
                o["diffs"].append("the step-by-step run panics (%s) but patch.File.Apply reports no error" % r["hook_panic"][:120])
            continue
        if r["parse_err"]:
            o["skipped"] = "target does not parse"
            continue
        if m is None or m[0] != "result":
            o["diffs"].append("model error: %r" % (m,))
            continue
        if m[1][0] == "compile-error":
            o["diffs"].append("model rejects the patch (no '-' elision before a '+' elision) but gopatch loaded it")
            continue
        compare(o, abort)
    return out


def compare(o, abort=False):
    r, m = o["impl"], o["model"]
    if r.get("meta_diff"):
        o["diffs"].append("the metavariable table compiled for a change differs from its declarations: %s" % "; ".join(r["meta_diff"])[:300])
    msteps = vlib.field(m, "steps")
    isteps = ["err" if s["replace_err"] else ("ok" if s["matched"] else "nomatch") for s in (r["steps"] or [])]
    if abort and "err" in isteps:
        # the model stops at the first failing change, as Apply and the command line do; the step-by-step hook goes on
        isteps = isteps[:isteps.index("err") + 1]
    o["msteps"], o["isteps"] = msteps, isteps
    if msteps != isteps:
        o["diffs"].append("per-change outcomes differ: model %s, gopatch %s" % (msteps, isteps))
        return
    if "err" in isteps:
        # a failing change is an error of the whole file: both entry points must report it
        first = next(s["replace_err"] for s in r["steps"] if s["replace_err"])
        if not r.get("api_err"):
            o["api_swallowed"] = first
            o["diffs"].append("a change fails when the changes are run one by one (%s) but patch.File.Apply returns no error" % first[:160])
        cli = o.get("cli")
        if cli is not None and cli[0] == 0:
            o["cli_differs"] = "a change fails (%s) but the binary exits 0" % first[:120]
            o["diffs"].append(o["cli_differs"]); o["cli_output"] = cli[1]
        return
    cli = o.get("cli")
    if cli is not None and "err" not in isteps:
        want = unb64(r["out"]) if r.get("out") else None
        if r.get("api_err") or r.get("out_err"):
            if cli[0] == 0:
                o["cli_differs"] = "the library reports an error (%s) but the binary exits 0" % (r.get("api_err") or r.get("out_err"))[:120]
        elif want is not None and cli[1] != want:
            o["cli_differs"] = "the binary leaves other bytes in the file than patch.File.Apply returns for the same input (exit %d, stderr %r)" % (cli[0], cli[2][:160])
        elif want is None and "ok" not in isteps and cli[0] == 0 and cli[1] != unb64(r["in_src"]) if r.get("in_src") else False:
            o["cli_differs"] = "no change applies but the binary modified the file"
        if o.get("cli_differs"):
            o["diffs"].append(o["cli_differs"])
            o["cli_output"] = cli[1]
    if "ok" not in isteps:
        return
    # the per-change steps come from the hook (Change.Match / Replace called one by one); the output is what the
    # public API returned for the same input: its loop must do what the steps say
    if r.get("api_err") and not r.get("hook_err"):
        o["api_failed"] = r["api_err"]
        o["diffs"].append("patch.File.Apply fails (%s) although every change applies when run step by step" % r["api_err"][:160])
        return
    if r["out_err"]:
        o["skipped"] = "output does not print/parse: " + r["out_err"][:120]
        return
    mt = canon(vlib.field(m, "tree")[0])
    it = canon(parse_sx(r["out_tree"]))
    o["mtree"], o["itree"] = mt, it
    if mt != it:
        paths = diff_paths(mt, it)
        o["diffs"].append("rewritten tree differs at %s" % paths)
    mi = sorted((0 if e[0] == "none" else int(e[0]), int(e[1])) for e in vlib.field(m, "imports"))
    ii = imports_of(r["out_imports"])
    o["mimports"], o["iimports"] = mi, ii
    if mi != ii:
        at = r["atoms"]
        nm = lambda l: [((at[a - 1] if a else None), at[b - 1]) for a, b in l]
        o["diffs"].append("imports differ: model %s, gopatch %s" % (nm(mi), nm(ii)))
