"""Task descriptions for sub-agents that look for GENUINE violations of a property in the unchanged code:
python3 lib/hunt_prompts.py <tag> [ID...].  A sub-agent gets the text of one property and its own scratch worktree; nothing from /verif."""
import json, os, sys
sys.path.insert(0, os.path.dirname(os.path.abspath(__file__)))
from seed_prompts import prop_text, ROOT

KNOWN = {
    "C04": "a nested list pattern such as -f(g(..., x, ...), x) takes the first decomposition of the inner list only (known)",
    "C11": "an unnamed import whose package name is not the last path element (gopkg.in/yaml.v3) is deleted while still used (known)",
    "C12": "--diff on CRLF targets, on targets without final newline and on targets with a line longer than 64 KiB does not reproduce the other modes (known, inside pkg/diff)",
    "C17": "adding an import to a file without imports whose package line carries a comment detaches the first declaration's doc comment (known); imports.Process merges several import declarations and their comments float (known)",
    "C13": "a context line inside a multi-line raw string literal keeps the marker's space (known); a line broken right after the '...' of an unnamed variadic parameter is rejected (known)",
    "C09": "what go/printer normalises between two runs (0X1F -> 0x1F, redundant result parentheses) can make a later change match in the chain only (known)",
    "C19": "a /*line f.go:1:1*/ directive on the last line of a metavariable section redirects the diagnostic (known)",
}


def main():
    tag = sys.argv[1]
    props = {}
    for l in open(os.path.join(ROOT, "properties.jsonl")):
        p = json.loads(l)
        props[p["id"]] = p
    for pid in sys.argv[2:] or sorted(props):
        wt = "/tmp/wt%s-%s" % (tag, pid)
        body = """You are testing a Go project for GENUINE DEFECTS. Work ONLY inside the git worktree {wt} (a checkout of uber-go/gopatch, a refactoring tool that applies semantic patches - a unified-diff-like DSL with metavariables and '...' elisions - to Go files). Do not read or touch /verif or /repo. No network is available. Per shell call first run: `export GOFLAGS=-mod=mod GOPROXY=off GOSUMDB=off GOTOOLCHAIN=local`. Do NOT change any source file of the project; build the binary once (`cd {wt} && go build -o /tmp/gp-{tag}-{pid} .`) and experiment with it (and, if useful, with small Go programs that import github.com/uber-go/gopatch/patch, placed in a temporary directory INSIDE the checkout and removed afterwards). README.md, docs/ and testdata/ (txtar cases: patch, inputs, expected outputs) show how patches are written.

The property the project is supposed to satisfy (read it carefully, every clause):

---
{prop}

---

Your task: find inputs (patch files, Go files, command lines, sequences of library calls) on which the UNCHANGED code VIOLATES this property. Think about what the property quantifies over and probe the corners systematically: unusual but legal Go syntax (generics, labels, goto, select, struct tags, raw strings, build tags, cgo-free directives, unicode identifiers, parenthesised types, method expressions, anonymous structs, embedded fields, iota blocks, multiple assignment, type switches with bindings, range-over-func/int, labeled continue), unusual patch layouts, several changes and several patch files in one run, several files in one run, flag combinations, empty inputs, very large inputs, files with odd comments, interactions between features (imports + elisions + metavariables + several changes). Read the code the anchors point to and look for assumptions that some input breaks. Spend your effort on DEPTH: a handful of carefully confirmed, minimal, genuinely wrong behaviours is worth more than many doubtful ones. {known}

For every defect you find, create a directory {wt}/defect<N>/ (untracked) containing: every input file, a script `repro.sh` that takes the path of the gopatch binary as $1, runs the case and prints OBSERVED output, and a file `README.txt` that states (1) the exact command, (2) what was observed, (3) what the property requires instead and which clause of it is violated, (4) your best explanation of the cause in the code (file and function). Make each repro minimal. Confirm each one twice.

Report back a list of the defects (one paragraph each: input, command, observed, expected, cause) ordered by how clearly they violate the property. If after a thorough search you find none, say so and list what you probed.
""".format(wt=wt, tag=tag, pid=pid, prop=prop_text(props[pid]),
           known=("Already known, do not report again: " + KNOWN[pid] + ".") if pid in KNOWN else "")
        open("/tmp/prompt%s-%s.txt" % (tag, pid), "w").write(body)
        print(pid, wt)


main()
