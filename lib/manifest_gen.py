#!/usr/bin/env python3
"""Writes MANIFEST.json from the table below (kept in one place so it stays valid)."""
import json, os
VERIF = os.path.dirname(os.path.dirname(os.path.abspath(__file__)))
BASE_OFF = "cd /repo && GOFLAGS=-mod=mod GOPROXY=off GOSUMDB=off GOTOOLCHAIN=local go test -json -vet=off -count=1 -timeout 25m ./..."
CHECKS = json.load(open(os.path.join(VERIF, "lib", "checks.json")))
PROPS = [json.loads(l)["id"] for l in open(os.path.join(VERIF, "properties.jsonl"))]
m = {
  "version": 1,
  "setup_cmd": "bin/setup",
  "hooks": {"guard": "verif", "enable": "go build -tags verif (patch/verif_hooks.go, internal/engine/verif_hooks.go, internal/astdiff/verif_hooks.go, internal/parse/verif_hooks.go; the harness module replaces github.com/uber-go/gopatch => /repo)",
            "baseline_off_cmd": BASE_OFF, "source_commits": CHECKS["hook_commits"], "add_only": True},
  "engines": [{"name": "coq-models", "path": "coq", "serves_properties": [c["id"] for c in CHECKS["checks"]],
               "kind_free_text": "Coq 8.16 models + theorems (coq/Model, coq/Proofs, coq/Properties), extracted to OCaml (ocaml/), tied to /repo by the correspondence harness (harness/, lib/, checks/)"}],
  "checks": [],
  "notes": CHECKS.get("notes", ""),
  "not_applicable": [],
}
claimed = set()
for c in CHECKS["checks"]:
    claimed.add(c["id"])
    m["checks"].append({
        "property_id": c["id"],
        "quick_cmd": "bin/check %s --tier quick" % c["id"],
        "thorough_cmd": "bin/check %s --tier thorough" % c["id"],
        "evidence_file": "/verif/evidence/%s.json" % c["id"],
        "replay_cmd_template": "bin/check %s --replay {path}" % c["id"],
        "engine": "coq-models",
        "level_claimed": {"category": "proof", "text": c["text"], "design_ref": c.get("design_ref", "DESIGN.md §4 " + c["id"])},
        "level_note": c["note"],
        "technique": c["technique"],
    })
for p in PROPS:
    if p not in claimed:
        m["not_applicable"].append({"property_id": p, "reason": CHECKS["unclaimed"].get(p, "check not built yet; planned (DESIGN.md §9)")})
json.dump(m, open(os.path.join(VERIF, "MANIFEST.json"), "w"), indent=1)
print("MANIFEST.json: %d checks, %d unclaimed" % (len(m["checks"]), len(m["not_applicable"])))
