#!/usr/bin/env python3
"""Regenerate the table of section 9 of DESIGN.md (seeded changes) from seeded/<id>/meta.json."""
import glob, json, os, re

ROOT = os.path.dirname(os.path.dirname(os.path.abspath(__file__)))


def cut(s, n):
    s = " ".join(s.split()).replace("|", "\\|")
    return s if len(s) <= n else s[:n - 3] + "..."


def rows():
    out = []
    def key(d):
        m = re.match(r"C(\d+)-(\d+)$", os.path.basename(d))
        return (int(m.group(1)), int(m.group(2)))
    ds = [d for d in glob.glob(os.path.join(ROOT, "seeded", "C*-*")) if re.match(r"C\d+-\d+$", os.path.basename(d))]
    for d in sorted(ds, key=key):
        m = json.load(open(os.path.join(d, "meta.json")))
        note = ""
        if m.get("obsolete"):
            note = " (obsolete: %s)" % cut(str(m["obsolete"]), 120)
        elif m.get("ported"):
            note = " (re-made by hand on HEAD after later fixes)" if "by hand" in str(m["ported"]) else " (rebased after later fixes)"
        out.append("| %s | r%s | %s | %s%s |" % (os.path.basename(d), m.get("round", 1), cut(m["summary"], 230),
                                                   cut(m.get("detected_by", "?"), 330), note))
    return out


def main():
    p = os.path.join(ROOT, "DESIGN.md")
    s = open(p).read()
    r = rows()
    missed = sum(1 for x in r if "MISSED" in x or "missed" in x or "half" in x)
    table = "| seed | round | change (from its meta.json) | caught by |\n|---|---|---|---|\n" + "\n".join(r) + "\n"
    s2, n = re.subn(r"\| seed \|[^\n]*\n\|---[^\n]*\n(?:\|[^\n]*\n)*", lambda _: table, s, count=1)
    assert n == 1
    open(p, "w").write(s2)
    print("%d seeds, %d initially missed or half-caught" % (len(r), missed))


if __name__ == "__main__":
    main()
