"""Shared machinery of the gopatch verification checks.

build()            gate + Coq project + extraction + OCaml driver + Go binaries,
                   all rebuilt from the current working trees (cheap when nothing changed)
prove(id)          re-compile coq/Properties/<id>.v, collect `Print Assumptions` output
harness(cmd, req)  run the Go harness (implementation side)
model(cases)       run the extracted Coq model (model side) on s-expression cases
Check              bookkeeping: violations, known findings, evidence, exit status
"""
import base64, fcntl, hashlib, json, os, random, re, shutil, subprocess, sys, tempfile, time

VERIF = os.path.dirname(os.path.dirname(os.path.abspath(__file__)))
REPO = os.environ.get("VERIF_REPO", "/repo")
BUILD = os.path.join(VERIF, "_build")
COQ = os.path.join(VERIF, "coq")
BIN = os.path.join(BUILD, "bin")
GOPATCH = os.path.join(BIN, "gopatch")
HARNESS = os.path.join(BIN, "verifharness")
GPMODEL = os.path.join(BUILD, "ocaml", "gpmodel")

GOENV = dict(os.environ, GOFLAGS="-mod=mod", GOPROXY="off", GOSUMDB="off",
             GOTOOLCHAIN="local", CGO_ENABLED="0")

FORBIDDEN = re.compile(
    r"\b(Admitted|admit|Axiom|Axioms|Parameter|Parameters|Conjecture|Conjectures|"
    r"Admit\s+Obligations|Unset\s+Guard\s+Checking|Unset\s+Positivity\s+Checking|"
    r"Unset\s+Universe\s+Checking|bypass_check|Hypothesis|Hypotheses)\b")


class BuildError(Exception):
    pass


def sh(cmd, cwd=None, env=None, timeout=900, check=True, input=None):
    p = subprocess.run(cmd, cwd=cwd, env=env, timeout=timeout, input=input,
                       stdout=subprocess.PIPE, stderr=subprocess.STDOUT)
    out = p.stdout.decode("utf-8", "replace")
    if check and p.returncode != 0:
        raise BuildError("command failed (%d): %s\n%s" % (p.returncode, " ".join(cmd), out[-4000:]))
    return p.returncode, out


# ---------------------------------------------------------------- gate
def strip_coq_comments(src):
    out, depth, i = [], 0, 0
    while i < len(src):
        if src.startswith("(*", i):
            depth += 1; i += 2
        elif src.startswith("*)", i) and depth > 0:
            depth -= 1; i += 2
        else:
            if depth == 0:
                out.append(src[i])
            i += 1
    return "".join(out)


def gate():
    """No Admitted/admit/Axiom/Parameter/...; Variable/Hypothesis only inside sections."""
    bad = []
    for root, _, files in os.walk(COQ):
        for f in files:
            if not f.endswith(".v"):
                continue
            p = os.path.join(root, f)
            src = strip_coq_comments(open(p).read())
            # strings could contain the words; none of ours do
            depth = 0
            for ln, line in enumerate(src.split("\n"), 1):
                if re.match(r"\s*Section\b", line):
                    depth += 1
                if re.match(r"\s*End\b", line) and depth > 0:
                    depth -= 1
                for m in FORBIDDEN.finditer(line):
                    w = m.group(1)
                    if w.startswith("Hypothes") and depth > 0:
                        continue
                    bad.append("%s:%d: %s" % (p, ln, w))
                if depth == 0 and re.match(r"\s*(Variable|Variables|Context)\b", line):
                    bad.append("%s:%d: Variable outside a section" % (p, ln))
    if bad:
        raise BuildError("forbidden vernacular:\n" + "\n".join(bad))


# ---------------------------------------------------------------- builds
class _Lock:
    def __enter__(self):
        os.makedirs(BUILD, exist_ok=True)
        self.f = open(os.path.join(BUILD, ".lock"), "w")
        fcntl.flock(self.f, fcntl.LOCK_EX)
    def __exit__(self, *a):
        fcntl.flock(self.f, fcntl.LOCK_UN)
        self.f.close()


def build_coq():
    gen_tables()
    if not os.path.exists(os.path.join(COQ, "Makefile")) or \
       os.path.getmtime(os.path.join(COQ, "Makefile")) < os.path.getmtime(os.path.join(COQ, "_CoqProject")):
        sh(["coq_makefile", "-f", "_CoqProject", "-o", "Makefile"], cwd=COQ)
    rc, out = sh(["make", "-j16"], cwd=COQ, timeout=3000, check=False)
    return rc, out


def gen_tables():
    """Regenerate coq/Gen/*.v from the toolchain and /repo (only rewritten when changed)."""
    gen = os.path.join(VERIF, "lib", "gen_tables.py")
    if os.path.exists(gen):
        sh([sys.executable, gen], cwd=VERIF, env=GOENV, timeout=600)


def build_ocaml():
    d = os.path.join(BUILD, "ocaml")
    os.makedirs(d, exist_ok=True)
    srcs = sorted(f for f in os.listdir(os.path.join(VERIF, "ocaml")) if f.endswith(".ml"))
    stamp_in = [os.path.join(VERIF, "ocaml", f) for f in srcs] + \
               [os.path.join(COQ, "Extract", "Extract.v")] + \
               [os.path.join(r, f) for r, _, fs in os.walk(os.path.join(COQ, "Model")) for f in fs if f.endswith(".vo")] + \
               [os.path.join(r, f) for r, _, fs in os.walk(os.path.join(COQ, "Gen")) for f in fs if f.endswith(".vo")]
    newest = max(os.path.getmtime(p) for p in stamp_in)
    if os.path.exists(GPMODEL) and os.path.getmtime(GPMODEL) >= newest:
        return
    sh(["coqc", "-Q", COQ, "GP", os.path.join(COQ, "Extract", "Extract.v")], cwd=d, timeout=600)
    for f in srcs:
        shutil.copy(os.path.join(VERIF, "ocaml", f), d)
    order = ["sexp.ml"] + [f for f in srcs if f.startswith("fam_")] + ["driver.ml"]
    sh(["ocamlfind", "ocamlopt", "-w", "-a", "gpmodel.mli", "gpmodel.ml"] + order + ["-o", "gpmodel.tmp"],
       cwd=d, timeout=600)
    os.replace(os.path.join(d, "gpmodel.tmp"), GPMODEL)


def build_go():
    os.makedirs(BIN, exist_ok=True)
    tmp = GOPATCH + ".%d" % os.getpid()
    sh(["go", "build", "-o", tmp, "."], cwd=REPO, env=GOENV, timeout=600)
    os.replace(tmp, GOPATCH)
    # harness: copy sources next to a generated go.mod/go.sum so nothing tracked is modified
    hd = os.path.join(BUILD, "harness")
    os.makedirs(hd, exist_ok=True)
    src = os.path.join(VERIF, "harness")
    for f in os.listdir(hd):
        if f.endswith(".go"):
            os.remove(os.path.join(hd, f))
    for f in os.listdir(src):
        if f.endswith(".go"):
            shutil.copy(os.path.join(src, f), hd)
    repo_mod = open(os.path.join(REPO, "go.mod")).read()
    reqs = repo_mod[repo_mod.index("require"):]
    with open(os.path.join(hd, "go.mod"), "w") as f:
        f.write("module verifharness\n\ngo 1.22\n\nrequire github.com/uber-go/gopatch v0.0.0\n\n"
                "replace github.com/uber-go/gopatch => %s\n\n%s" % (REPO, reqs))
    shutil.copy(os.path.join(REPO, "go.sum"), os.path.join(hd, "go.sum"))
    tmp = HARNESS + ".%d" % os.getpid()
    sh(["go", "build", "-tags", "verif", "-o", tmp, "."], cwd=hd, env=GOENV, timeout=600)
    os.replace(tmp, HARNESS)


def build(need_go=True):
    """Returns (coq_ok, coq_log)."""
    with _Lock():
        gate()
        build_go()
        rc, out = build_coq()
        if rc == 0:
            build_ocaml()
        elif not os.path.exists(GPMODEL):
            # proofs broken but the models may still compile: build them alone
            sh(["make", "-j16", "-k"] , cwd=COQ, timeout=3000, check=False)
            build_ocaml()
    return rc == 0, out


def prove(pid):
    """Compile the property file; return (ok, log, assumptions)."""
    f = os.path.join(COQ, "Properties", pid + ".v")
    rc, out = sh(["coqc", "-Q", COQ, "GP", "-w", "-notation-overridden", f], cwd=COQ, timeout=1200, check=False)
    theorems = re.findall(r"^\s*(?:Theorem|Corollary)\s+(\w+)", strip_coq_comments(open(f).read()), re.M)
    closed = out.count("Closed under the global context")
    axioms = []
    for m in re.finditer(r"Axioms:\n((?:.+\n)+)", out):
        axioms.append(m.group(1).strip())
    info = {"theorems": theorems, "closed": closed, "axioms": axioms}
    if rc == 0 and os.environ.get("VERIF_TIER") == "thorough" and os.environ.get("VERIF_NO_COQCHK") != "1":
        # independent re-check of the compiled property file and everything it depends on
        rc2, out2 = sh(["coqchk", "-silent", "-o", "-Q", COQ, "GP", "GP.Properties." + pid], cwd=COQ, timeout=6000, check=False)
        m = re.search(r"\* Axioms:\s*(.*?)\n\s*\n\* Constants/Inductives relying on type-in-type:\s*(.*?)\n\s*\n\* Constants/Inductives relying on unsafe \(co\)fixpoints:\s*(.*?)\n\s*\n\* Inductives whose positivity is assumed:\s*(.*?)\n", out2, re.S)
        info["coqchk"] = {"rc": rc2, "axioms": m.group(1).strip() if m else "?", "type_in_type": m.group(2).strip() if m else "?",
                          "unsafe_fixpoints": m.group(3).strip() if m else "?", "assumed_positivity": m.group(4).strip() if m else "?"}
        if rc2 != 0 or not m or any(info["coqchk"][k] != "<none>" for k in ("axioms", "type_in_type", "unsafe_fixpoints", "assumed_positivity")):
            return False, out + "\ncoqchk:\n" + out2[-2000:], info
    return rc == 0, out, info


# ---------------------------------------------------------------- running things
def b64(b):
    return base64.b64encode(b).decode()


def unb64(s):
    return base64.b64decode(s) if s else b""


def harness(cmd, req, timeout=1800):
    d = tempfile.mkdtemp(prefix="vh", dir=BUILD)
    try:
        i, o = os.path.join(d, "in.json"), os.path.join(d, "out.json")
        with open(i, "w") as f:
            json.dump(req, f)
        sh([HARNESS, cmd, i, o], env=GOENV, timeout=timeout)
        return json.load(open(o))
    finally:
        shutil.rmtree(d, ignore_errors=True)


def hx(b):
    if isinstance(b, str):
        b = b.encode()
    return "x" + b.hex()


def unhx(a):
    assert a[0] == "x", a
    return bytes.fromhex(a[1:])


def sx(x):
    """python nested lists/strs/ints/bools -> s-expression text"""
    if isinstance(x, (list, tuple)):
        return "(" + " ".join(sx(y) for y in x) + ")"
    if isinstance(x, bool):
        return "1" if x else "0"
    if isinstance(x, (bytes, bytearray)):
        return hx(bytes(x))
    return str(x)


def parse_sx(s):
    pos = 0
    n = len(s)
    def item():
        nonlocal pos
        while pos < n and s[pos] in " \n\t\r":
            pos += 1
        if s[pos] == "(":
            pos += 1
            items = []
            while True:
                while pos < n and s[pos] in " \n\t\r":
                    pos += 1
                if s[pos] == ")":
                    pos += 1
                    return items
                items.append(item())
        st = pos
        while pos < n and s[pos] not in " ()\n\t\r":
            pos += 1
        return s[st:pos]
    return item()


def model(cases, timeout=1800, shards=16):
    """cases: list of s-expression strings (one per case) -> list of parsed results."""
    if not cases:
        return []
    shards = max(1, min(shards, len(cases) // 8 or 1))
    chunks = [cases[i::shards] for i in range(shards)]
    procs = []
    for ch in chunks:
        p = subprocess.Popen([GPMODEL], stdin=subprocess.PIPE, stdout=subprocess.PIPE, stderr=subprocess.PIPE)
        procs.append(p)
    import threading
    outs = [None] * shards
    def feed(k):
        o, e = procs[k].communicate(("\n".join(chunks[k]) + "\n").encode(), timeout=timeout)
        outs[k] = (o.decode(), e.decode(), procs[k].returncode)
    ths = [threading.Thread(target=feed, args=(k,)) for k in range(shards)]
    [t.start() for t in ths]
    [t.join() for t in ths]
    res = [None] * len(cases)
    for k in range(shards):
        o, e, rc = outs[k]
        lines = [l for l in o.split("\n") if l]
        if rc != 0 or len(lines) != len(chunks[k]):
            raise BuildError("model driver failed rc=%s: %s" % (rc, e[-2000:]))
        for j, l in enumerate(lines):
            res[k + j * shards] = parse_sx(l)
    return res


def field(items, tag):
    for it in items:
        if isinstance(it, list) and it and it[0] == tag:
            return it[1:]
    raise KeyError(tag)


# ---------------------------------------------------------------- check bookkeeping
def known_findings():
    p = os.path.join(VERIF, "known_findings.json")
    if not os.path.exists(p):
        return []
    return json.load(open(p)).get("known", [])


class Check:
    def __init__(self, pid, level="proof"):
        self.pid = pid
        self.level = level
        self.tier = os.environ.get("VERIF_TIER", "quick")
        self.seed = int(os.environ.get("VERIF_SEED", "0") or 0)
        self.rng = random.Random(self.seed * 7919 + int(hashlib.sha1(pid.encode()).hexdigest()[:6], 16))
        self.t0 = time.time()
        self.violations = []        # (what, replay dict)
        self.mismatches = []        # correspondence failures without a judged failing input
        self.known_hits = {}        # finding id -> count
        self.cov = {"evaluations": 0, "distinct_nontrivial": 0, "rule": "", "samples": [],
                    "obligations": 0, "discharged": 0, "checker_cmd": "", "trusted_base": []}
        self.assumptions = []
        self.notes = {}
        self._distinct = set()

    # ---- accounting
    def count(self, key, nontrivial=True, n=1):
        self.cov["evaluations"] += n
        if nontrivial:
            self._distinct.add(key if isinstance(key, (str, bytes, int, tuple)) else json.dumps(key, sort_keys=True, default=str))

    def sample(self, s, limit=4):
        if len(self.cov["samples"]) < limit:
            self.cov["samples"].append(s)

    def tally(self, name, key):
        d = self.notes.setdefault(name, {})
        d[key] = d.get(key, 0) + 1

    # ---- results
    def violation(self, what, replay, finding_class=None):
        """finding_class: a string naming the class of the failing input; when it is listed
        in known_findings.json for this property, the case is a known finding."""
        if finding_class is not None:
            for k in known_findings():
                if k["property"] == self.pid and k["class"] == finding_class:
                    self.known_hits.setdefault(k["id"], [k, 0])[1] += 1
                    return
        self.violations.append((what, replay))

    def mismatch(self, what, replay, corr, finding_class=None):
        """Model and implementation disagree on a projected observable, but the case itself was
        not (or could not be) judged a violation of the property by the direct oracle."""
        if finding_class is not None:
            for k in known_findings():
                if k["property"] == self.pid and k["class"] == finding_class:
                    self.known_hits.setdefault(k["id"], [k, 0])[1] += 1
                    return
        self.mismatches.append((what, dict(replay, kind="correspondence-broken", correspondence=corr,
                                           no_failing_input_found=True)))

    def proof_obligations(self, ok, log, info, coq_ok=True, coq_log=""):
        self.cov["obligations"] = len(info["theorems"])
        self.cov["discharged"] = len(info["theorems"]) if (ok and coq_ok) else 0
        self.cov["checker_cmd"] = "make -C coq (full .vo build) && coqc -Q coq GP coq/Properties/%s.v" % self.pid
        self.notes["theorems"] = info["theorems"]
        if info.get("coqchk"):
            self.notes["coqchk"] = info["coqchk"]
        self.notes["print_assumptions"] = ("all %d closed under the global context" % info["closed"]) \
            if not info["axioms"] else info["axioms"]
        if not ok or not coq_ok:
            msg = (log if not ok else coq_log)[-3000:]
            self.proof_broken = msg
        else:
            self.proof_broken = None
        if ok and (info["closed"] != len(info["theorems"]) or info["axioms"]):
            self.notes["assumption_mismatch"] = True

    def finish(self):
        evdir = os.environ.get("VERIF_EVIDENCE_DIR") or os.path.join(VERIF, "evidence")   # seed experiments write elsewhere
        os.makedirs(evdir, exist_ok=True)
        os.makedirs(os.path.join(VERIF, "replays"), exist_ok=True)
        self.cov["distinct_nontrivial"] = len(self._distinct)
        exit_code = 0
        lines = []
        for fid, (k, n) in sorted(self.known_hits.items()):
            lines.append("KNOWN-FINDING: property=%s %s (%d cases this run)" % (self.pid, k["what"], n))
        vio = list(self.violations)
        broken = getattr(self, "proof_broken", None)
        if not vio and self.mismatches:
            vio = list(self.mismatches)
            self.notes["correspondence_mismatches"] = len(self.mismatches)
        if broken and not vio:
            # a proof obligation no longer checks and the search found no failing input
            vio.append(("proof obligation of Properties/%s.v no longer checks" % self.pid,
                        {"kind": "proof-broken", "theorem_file": "coq/Properties/%s.v" % self.pid,
                         "log": broken, "no_failing_input_found": True}))
        seen = 0
        for what, replay in vio[:5]:
            h = hashlib.sha1(json.dumps(replay, sort_keys=True, default=str).encode()).hexdigest()[:10]
            rp = os.path.join(VERIF, "replays", "%s-%s.json" % (self.pid, h))
            replay = dict(replay, property=self.pid, what=what)
            with open(rp, "w") as f:
                json.dump(replay, f, indent=1, default=str)
            suffix = " no-failing-input-found" if replay.get("no_failing_input_found") else ""
            lines.append("VIOLATION property=%s replay=%s%s" % (self.pid, rp, suffix))
            lines.append("  " + what[:300].replace("\n", " "))
            seen += 1
            exit_code = 1
        ev = {
            "property_id": self.pid, "tier": self.tier if self.tier in ("quick", "thorough") else "quick",
            "seed": self.seed, "level": self.level,
            "coverage": dict(self.cov, **{k: v for k, v in self.notes.items()}),
            "assumptions": self.assumptions, "wall_s": round(time.time() - self.t0, 2),
            "violations": len(vio),
        }
        ev["coverage"]["known_findings_hit"] = {fid: n for fid, (k, n) in self.known_hits.items()}
        with open(os.path.join(evdir, self.pid + ".json"), "w") as f:
            json.dump(ev, f, indent=1, default=str)
        for l in lines:
            print(l)
        print("%s %s: %d evaluations, %d distinct non-trivial, %d obligations/%d discharged, %d violations, %.1fs"
              % (self.pid, self.tier, self.cov["evaluations"], self.cov["distinct_nontrivial"],
                 self.cov["obligations"], self.cov["discharged"], len(vio), time.time() - self.t0))
        sys.stdout.flush()
        return exit_code


# ---------------------------------------------------------------- running the real binary
def run_gopatch(args, cwd, stdin=b"", timeout=60, env=None, uid=None):
    kw = {}
    if uid is not None:
        kw["user"] = uid
        kw["group"] = uid
    try:
        p = subprocess.run([GOPATCH] + args, cwd=cwd, input=stdin, stdout=subprocess.PIPE,
                           stderr=subprocess.PIPE, timeout=timeout, env=env, **kw)
        return p.returncode, p.stdout, p.stderr
    except subprocess.TimeoutExpired as e:
        return -999, e.stdout or b"", e.stderr or b""


def pmap(f, items, workers=16):
    from concurrent.futures import ThreadPoolExecutor
    with ThreadPoolExecutor(max_workers=workers) as ex:
        return list(ex.map(f, items))


def scratch(prefix="gp"):
    base = os.environ.get("VERIF_SCRATCH") or os.path.join(BUILD, "scratch")
    os.makedirs(base, exist_ok=True)
    return tempfile.mkdtemp(prefix=prefix, dir=base)
